// C20 — Go and Python front-ends list every declaration under its own name.
//
// Sub-checks (registered in c20_register_test.go):
//
//	go_file     generated Go files          -> CocagoParser.ProcessString / ProcessFile, GoIdentApp.Analysis
//	go_any      wider Go files              -> the same entry points, crash-freedom only
//	go_project  2-3 files (+ go.mod)        -> analysis.CommonAnalysis in process
//	go_cli      the same projects, fewer    -> binary of analysis/golang: analysis -p . => coca_reporter/godeps.json
//	py_module   generated Python modules    -> PythonIdentApp.Analysis
//	py_any      wider Python modules        -> crash-freedom only
//	py_project  2-3 modules                 -> analysis.CommonAnalysis in process
//	py_cli      the same projects, fewer    -> binary of analysis/python: analysis -p . => coca_reporter/pydeps.json
//
// This file: shared helpers and the Go side.
package c20

import (
	"encoding/json"
	"fmt"
	"go/parser"
	"go/token"
	"os"
	"path/filepath"
	"regexp"
	"sort"
	"strings"

	"github.com/modernizing/coca/pkg/application/analysis/goapp"
	"github.com/modernizing/coca/pkg/domain/core_domain"
	"github.com/modernizing/coca/pkg/infrastructure/ast/ast_go"
	"pgregory.net/rapid"

	"verif/internal/cli"
	"verif/internal/pbt"
)

// call runs f like pbt.Call and makes the panic text reproducible (rapid only minimises a failing
// case whose message is identical when the case is run again).
var unstable = regexp.MustCompile(`0x[0-9a-f]+\??|goroutine \d+`)

func call(f func()) string {
	p := pbt.Call(f)
	if p == "" {
		return ""
	}
	p = unstable.ReplaceAllString(p, "_")
	if len(p) > 1200 {
		p = p[:1200]
	}
	return p
}

func counts(list []string) map[string]int {
	m := map[string]int{}
	for _, s := range list {
		m[s]++
	}
	return m
}

func sortedKeys(m map[string]int) []string {
	var ks []string
	for k := range m {
		ks = append(ks, k)
	}
	sort.Strings(ks)
	return ks
}

// sameMultiset compares two name lists; the message names the first difference.
func sameMultiset(what string, got, want []string) string {
	g, w := counts(got), counts(want)
	for _, k := range sortedKeys(w) {
		if g[k] != w[k] {
			return fmt.Sprintf("%s: %q is declared %d time(s) and listed %d time(s); listed %v, declared %v", what, k, w[k], g[k], sorted(got), sorted(want))
		}
	}
	for _, k := range sortedKeys(g) {
		if w[k] == 0 {
			return fmt.Sprintf("%s: %q is listed but not declared; listed %v, declared %v", what, k, sorted(got), sorted(want))
		}
	}
	return ""
}

func sorted(l []string) []string {
	c := append([]string{}, l...)
	sort.Strings(c)
	return c
}

// ---------------------------------------------------------------------------------------
// ground truth of a generated Go file

type Prop struct {
	Name      string `json:"name"`
	TypeType  string `json:"typeType"`
	TypeValue string `json:"typeValue"`
}

func (p Prop) String() string { return p.Name + ":" + p.TypeType + "/" + p.TypeValue }

type Call struct {
	Sel string `json:"sel"`
	Fn  string `json:"fn"`
}

type GoFunc struct {
	Name   string `json:"name"`
	Recv   string `json:"recv,omitempty"` // "" = top-level function
	Params []Prop `json:"params"`
	Calls  []Call `json:"calls,omitempty"`  // X.F(...) written as expression statements
	Defers []Call `json:"defers,omitempty"` // defer X.F(...): recorded once or not at all
}

type GoStruct struct {
	Name   string `json:"name"`
	Fields []Prop `json:"fields"`
}

type GoIface struct {
	Name    string   `json:"name"`
	Methods []string `json:"methods"`
}

type GoImport struct {
	Path  string `json:"path"`
	Alias string `json:"alias,omitempty"`
}

type GoFile struct {
	Path     string     `json:"path"` // file name handed to the front-end
	Code     string     `json:"code"`
	Package  string     `json:"package"`
	Imports  []GoImport `json:"imports,omitempty"`
	Structs  []GoStruct `json:"structs,omitempty"`
	Ifaces   []GoIface  `json:"ifaces,omitempty"`
	Funcs    []GoFunc   `json:"funcs,omitempty"`
	Features []string   `json:"features,omitempty"`
}

// ---------------------------------------------------------------------------------------
// Go generator: a drawn specification, rendered deterministically

type typeSpec struct {
	Kind int // 0 ident, 1 pointer, 2 slice, 3 selector, 4 func
	Base int
	Qual bool // pointer/slice of a selector type
}

var (
	goBasic     = []string{"int", "string", "bool", "float64", "error", "byte"}
	goSelTypes  = []string{"sync.Mutex", "http.Client", "list.List", "time.Duration", "core.Engine"}
	goFuncTypes = []string{"func()", "func(a int) string", "func(string, int) (bool, error)"}
	goFieldName = []string{"name", "age", "ID", "items", "owner", "next", "count", "cb", "mu", "opts", "Value", "parent"}
	goParamName = []string{"a", "b", "ctx", "in", "out", "n", "key", "val"}
	goSelectors = []string{"fmt", "sync", "os", "http", "list", "core", "log", "strings"}
	goCallNames = []string{"Println", "Lock", "Unlock", "Do", "Close", "Add", "Write", "Run"}
	goDeferName = []string{"Done", "Release", "Flush"}
	goAssignFn  = []string{"NewThing", "Open", "Build"}
	goReturnFn  = []string{"Get", "Size", "Load"}
	goMethNames = []string{"String", "Len", "Push", "Pop", "Reset", "Area", "Save", "Run", "Process", "helper"} // the last three are also names of free functions
	goFuncNames = []string{"NewStack", "main", "helper", "Process", "init", "buildIndex", "Run", "parse"}
	goPkgNames  = []string{"main", "stack", "domain", "svc"}
	goImports   = []GoImport{{Path: "fmt"}, {Path: "sync"}, {Path: "os"}, {Path: "net/http"}, {Path: "container/list", Alias: "l"},
		{Path: "time", Alias: "."}, {Path: "embed", Alias: "_"}, {Path: "github.com/acme/widget/pkg/core"}, {Path: "example.org/lib/v2", Alias: "lib"},
		{Path: "github.com/modernizing/coca/pkg/domain/core_domain"}, {Path: "example.org/proj/internal/util"}, {Path: "strings"},
		// paths that share their last element with another import of the pool
		{Path: "text/template"}, {Path: "html/template", Alias: "htmpl"}, {Path: "example.org/proj/core", Alias: "pcore"}, {Path: "example.org/other/v2", Alias: "other"}}
)

func drawType(t *rapid.T) typeSpec {
	return typeSpec{Kind: rapid.IntRange(0, 4).Draw(t, "typeKind"), Base: rapid.IntRange(0, 7).Draw(t, "typeBase"), Qual: rapid.Bool().Draw(t, "typeQualified")}
}

// renderType gives the Go text and the model's reading of it (TypeType, TypeValue), as the
// golden files of the repository show it: the element name without "*" / "[]", "func" for functions.
func renderType(ts typeSpec, structNames []string) (text, typeType, typeValue string) {
	base := goBasic[ts.Base%len(goBasic)]
	if len(structNames) > 0 && ts.Base >= len(goBasic) {
		base = structNames[(ts.Base-len(goBasic))%len(structNames)]
	}
	sel := goSelTypes[ts.Base%len(goSelTypes)]
	switch ts.Kind {
	case 0:
		return base, "Identify", base
	case 1:
		if ts.Qual {
			return "*" + sel, "Star", sel
		}
		return "*" + base, "Star", base
	case 2:
		if ts.Qual {
			return "[]" + sel, "ArrayType", sel
		}
		return "[]" + base, "ArrayType", base
	case 3:
		return sel, "", sel
	}
	return goFuncTypes[ts.Base%len(goFuncTypes)], "Function", "func"
}

type fieldSpec struct {
	Name  int
	Type  typeSpec
	Group bool // declared together with the previous field: "a, b T"
	Tag   bool
	Embed bool // struct fields only: an embedded field (no name); identifier, pointer and selector types only
}

type stmtSpec struct {
	Kind int // 0 call pkg.F, 1 call on receiver/param, 2 defer, 3 assign from call, 4 plain assign, 5 plain call, 6 var decl, 7 incdec, 8 call on a local variable assigned earlier
	Sel  int
	Fn   int
	Args []int
}

type funcSpec struct {
	Name     int
	Params   []fieldSpec
	Unnamed  bool // parameters without names
	Results  int
	Stmts    []stmtSpec
	Return   int  // 0 none, 1 return, 2 return value(s), 3 return pkg.Get(), 4 return param.Size()
	PtrRecv  bool // methods only
	NoRecvNm bool // methods only: receiver without a name
	OneLine  bool
}

type structSpec struct {
	Fields  []fieldSpec
	Methods []funcSpec
	// NameLike: 1 = the name of the previous type of the file followed by "Item" (one name is a prefix of the other),
	// 2 = "Sub" followed by the name of the previous type (one name is a suffix of the other)
	NameLike int
}

type ifaceSpec struct {
	Methods []int
	Params  int
}

type goSpec struct {
	Pkg        int
	Dir        int
	Imports    []int
	GroupedImp bool
	Structs    []structSpec
	Ifaces     []ifaceSpec
	Funcs      []funcSpec
	GroupTypes bool  // type ( ... ) declaration group
	Order      []int // sort keys of the top-level declarations; empty = types, then methods, then functions
	Comments   bool
	// SharedName: the first struct of the file is called Config, whatever the prefix: files of different
	// directories of a project may each declare a type of that name
	SharedName bool
}

var fieldSpecGen = rapid.Custom(func(t *rapid.T) fieldSpec {
	return fieldSpec{Name: rapid.IntRange(0, len(goFieldName)-1).Draw(t, "fieldName"), Type: drawType(t),
		Group: rapid.IntRange(0, 5).Draw(t, "groupedName") == 5, Tag: rapid.IntRange(0, 7).Draw(t, "tag") == 7}
})

var stmtSpecGen = rapid.Custom(func(t *rapid.T) stmtSpec {
	return stmtSpec{Kind: rapid.SampledFrom([]int{0, 0, 0, 1, 1, 2, 3, 4, 5, 6, 7, 3, 8, 8}).Draw(t, "stmtKind"),
		Sel: rapid.IntRange(0, 7).Draw(t, "selector"), Fn: rapid.IntRange(0, 7).Draw(t, "function"),
		Args: rapid.SliceOfN(rapid.IntRange(0, 7), 0, 2).Draw(t, "args")}
})

var funcSpecGen = rapid.Custom(func(t *rapid.T) funcSpec {
	f := funcSpec{}
	f.Name = rapid.IntRange(0, 7).Draw(t, "funcName")
	f.Params = rapid.SliceOfN(fieldSpecGen, 0, 3).Draw(t, "params")
	f.Unnamed = rapid.IntRange(0, 7).Draw(t, "unnamedParams") == 7
	f.Results = rapid.IntRange(0, 3).Draw(t, "results")
	f.Stmts = rapid.SliceOfN(stmtSpecGen, 0, 5).Draw(t, "body")
	f.Return = rapid.IntRange(0, 4).Draw(t, "return")
	f.PtrRecv = rapid.Bool().Draw(t, "pointerReceiver")
	f.NoRecvNm = rapid.IntRange(0, 4).Draw(t, "receiverWithoutName") == 4
	f.OneLine = rapid.IntRange(0, 9).Draw(t, "oneLineBody") == 9
	return f
})

var structSpecGen = rapid.Custom(func(t *rapid.T) structSpec {
	ss := structSpec{Fields: rapid.SliceOfN(fieldSpecGen, 0, 4).Draw(t, "fields"), Methods: rapid.SliceOfN(funcSpecGen, 0, 3).Draw(t, "methods")}
	for i := range ss.Fields {
		ss.Fields[i].Embed = rapid.IntRange(0, 6).Draw(t, "embeddedField") == 6
	}
	if rapid.IntRange(0, 3).Draw(t, "nameLikePrevious") == 3 {
		ss.NameLike = rapid.IntRange(1, 2).Draw(t, "nameLikeForm")
	}
	return ss
})

var ifaceSpecGen = rapid.Custom(func(t *rapid.T) ifaceSpec {
	is := ifaceSpec{Methods: rapid.SliceOfN(rapid.IntRange(0, 6), 1, 3).Draw(t, "ifaceMethods"), Params: rapid.IntRange(0, 2).Draw(t, "ifaceParams")}
	if rapid.IntRange(0, 7).Draw(t, "emptyInterface") == 7 {
		is.Methods = nil // type P interface{}: listed once, with an empty method set
	}
	return is
})

func drawGoSpec(t *rapid.T) goSpec {
	g := goSpec{}
	g.Pkg = rapid.IntRange(0, len(goPkgNames)-1).Draw(t, "package")
	g.Dir = rapid.IntRange(0, 2).Draw(t, "directory")
	g.Imports = rapid.SliceOfN(rapid.IntRange(0, len(goImports)-1), 0, 4).Draw(t, "imports")
	g.GroupedImp = rapid.Bool().Draw(t, "groupedImports")
	g.Structs = rapid.SliceOfN(structSpecGen, 1, 4).Draw(t, "structs")
	g.Ifaces = rapid.SliceOfN(ifaceSpecGen, 0, 2).Draw(t, "interfaces")
	g.Funcs = rapid.SliceOfN(funcSpecGen, 0, 3).Draw(t, "functions")
	g.GroupTypes = rapid.IntRange(0, 5).Draw(t, "typeGroup") == 5
	if rapid.IntRange(0, 2).Draw(t, "shuffleDeclarations") == 2 {
		g.Order = rapid.SliceOfN(rapid.IntRange(0, 9), 12, 12).Draw(t, "declarationOrder")
	}
	g.Comments = rapid.IntRange(0, 3).Draw(t, "comments") == 3
	g.SharedName = rapid.IntRange(0, 2).Draw(t, "sharedTypeName") == 2
	return g
}

type goNames struct {
	prefix string
	seq    int
}

func (n *goNames) next(base string) string {
	n.seq++
	return fmt.Sprintf("%s%s%d", n.prefix, base, n.seq)
}

// renderFunc renders one function or method and records its ground truth.
func renderFunc(fs funcSpec, name, recvType string, structNames []string, feats map[string]bool) (string, GoFunc) {
	gf := GoFunc{Name: name, Recv: recvType}
	var b strings.Builder
	b.WriteString("func ")
	recvName := ""
	if recvType != "" {
		star := ""
		if fs.PtrRecv {
			star = "*"
			feats["pointer_receiver"] = true
		} else {
			feats["value_receiver"] = true
		}
		if fs.NoRecvNm {
			b.WriteString("(" + star + recvType + ") ")
		} else {
			recvName = "r"
			b.WriteString("(r " + star + recvType + ") ")
		}
	}
	b.WriteString(name + "(")
	// parameters
	var paramNames []string
	used := map[string]bool{"r": true}
	var parts []string
	for i := 0; i < len(fs.Params); i++ {
		ps := fs.Params[i]
		text, tt, tv := renderType(ps.Type, structNames)
		if fs.Unnamed {
			parts = append(parts, text)
			gf.Params = append(gf.Params, Prop{Name: "", TypeType: tt, TypeValue: tv})
			continue
		}
		pname := goParamName[ps.Name%len(goParamName)]
		for used[pname] {
			pname += "x"
		}
		used[pname] = true
		names := []string{pname}
		// "a, b T": the following parameters marked Group share this type
		for i+1 < len(fs.Params) && fs.Params[i+1].Group && !pbt.Excluded("go_grouped_names") {
			i++
			nn := goParamName[fs.Params[i].Name%len(goParamName)]
			for used[nn] {
				nn += "x"
			}
			used[nn] = true
			names = append(names, nn)
			feats["grouped_parameter_names"] = true
		}
		parts = append(parts, strings.Join(names, ", ")+" "+text)
		for _, nn := range names {
			gf.Params = append(gf.Params, Prop{Name: nn, TypeType: tt, TypeValue: tv})
			paramNames = append(paramNames, nn)
		}
	}
	b.WriteString(strings.Join(parts, ", ") + ")")
	switch fs.Results {
	case 1:
		b.WriteString(" int")
	case 2:
		b.WriteString(" (int, error)")
	case 3:
		b.WriteString(" (n int, err error)")
	}
	b.WriteString(" {")
	var lines []string
	arg := func(k int) string {
		switch k % 8 {
		case 0:
			return "1"
		case 1:
			return "\"s\""
		case 2:
			return "nil"
		case 3:
			return "os.Args"
		case 4:
			return "core.Default()"
		case 5:
			if len(paramNames) > 0 {
				return paramNames[0]
			}
			return "true"
		case 6:
			return "x"
		}
		return "2.5"
	}
	args := func(ks []int) string {
		var as []string
		for _, k := range ks {
			as = append(as, arg(k))
		}
		return strings.Join(as, ", ")
	}
	target := func(k int) string { // a receiver or parameter to call a method on
		if recvName != "" && (k%2 == 0 || len(paramNames) == 0) {
			return recvName
		}
		if len(paramNames) > 0 {
			return paramNames[k%len(paramNames)]
		}
		return ""
	}
	var locals []string // variables assigned from a call further up in this body
	for _, st := range fs.Stmts {
		switch st.Kind {
		case 8:
			if len(locals) == 0 {
				continue
			}
			c := Call{Sel: locals[st.Sel%len(locals)], Fn: goCallNames[st.Fn%len(goCallNames)]}
			lines = append(lines, c.Sel+"."+c.Fn+"("+args(st.Args)+")")
			gf.Calls = append(gf.Calls, c)
			feats["local_variable_call_statement"] = true
		case 0:
			c := Call{Sel: goSelectors[st.Sel%len(goSelectors)], Fn: goCallNames[st.Fn%len(goCallNames)]}
			lines = append(lines, c.Sel+"."+c.Fn+"("+args(st.Args)+")")
			gf.Calls = append(gf.Calls, c)
			feats["package_call_statement"] = true
		case 1:
			tg := target(st.Sel)
			if tg == "" {
				continue
			}
			c := Call{Sel: tg, Fn: goCallNames[st.Fn%len(goCallNames)]}
			lines = append(lines, c.Sel+"."+c.Fn+"("+args(st.Args)+")")
			gf.Calls = append(gf.Calls, c)
			feats["receiver_or_parameter_call_statement"] = true
		case 2:
			c := Call{Sel: goSelectors[st.Sel%len(goSelectors)], Fn: goDeferName[st.Fn%len(goDeferName)]}
			if tg := target(st.Sel); tg != "" && st.Fn%2 == 1 {
				c.Sel = tg
			}
			lines = append(lines, "defer "+c.Sel+"."+c.Fn+"("+args(st.Args)+")")
			gf.Defers = append(gf.Defers, c)
			feats["defer"] = true
		case 3:
			locals = append(locals, fmt.Sprintf("v%d", len(lines)))
			lines = append(lines, fmt.Sprintf("v%d := %s.%s(%s)", len(lines), goSelectors[st.Sel%len(goSelectors)], goAssignFn[st.Fn%len(goAssignFn)], args(st.Args)))
			feats["assignment_from_call"] = true
		case 4:
			lines = append(lines, fmt.Sprintf("w%d := %s", len(lines), arg(st.Fn)))
		case 5:
			lines = append(lines, fmt.Sprintf("plain%d(%s)", st.Fn%3, args(st.Args)))
			feats["unqualified_call_statement"] = true
		case 6:
			lines = append(lines, fmt.Sprintf("var t%d int", len(lines)))
		case 7:
			lines = append(lines, "counter++")
		}
	}
	switch fs.Return {
	case 1:
		lines = append(lines, "return")
	case 2:
		lines = append(lines, "return 0, nil")
	case 3:
		lines = append(lines, "return "+goSelectors[fs.Name%len(goSelectors)]+"."+goReturnFn[fs.Name%len(goReturnFn)]+"()")
	case 4:
		if len(paramNames) > 0 {
			lines = append(lines, "return "+paramNames[0]+"."+goReturnFn[fs.Name%len(goReturnFn)]+"()")
		}
	}
	if fs.OneLine && len(lines) <= 1 {
		b.WriteString(" " + strings.Join(lines, "") + " }\n")
	} else {
		b.WriteString("\n")
		for _, l := range lines {
			b.WriteString("\t" + l + "\n")
		}
		b.WriteString("}\n")
	}
	return b.String(), gf
}

// renderGo renders the specification. prefix makes type and function names unique across the files of a project.
func renderGo(g goSpec, prefix string, fileName string) GoFile {
	f := GoFile{Package: goPkgNames[g.Pkg%len(goPkgNames)]}
	dir := []string{"", "pkg/stack/", "internal/app/svc/"}[g.Dir%3]
	f.Path = dir + fileName
	feats := map[string]bool{}
	names := &goNames{prefix: prefix}
	var b strings.Builder
	if g.Comments {
		b.WriteString("// Package " + f.Package + " is generated.\n")
	}
	b.WriteString("package " + f.Package + "\n\n")

	// imports (distinct)
	seenImp := map[int]bool{}
	var imps []GoImport
	for _, i := range g.Imports {
		if !seenImp[i%len(goImports)] {
			seenImp[i%len(goImports)] = true
			imps = append(imps, goImports[i%len(goImports)])
		}
	}
	impLine := func(im GoImport) string {
		if im.Alias != "" {
			feats["import_alias"] = true
			return im.Alias + " \"" + im.Path + "\""
		}
		return "\"" + im.Path + "\""
	}
	if len(imps) > 0 {
		if g.GroupedImp || len(imps) > 2 {
			b.WriteString("import (\n")
			for _, im := range imps {
				b.WriteString("\t" + impLine(im) + "\n")
			}
			b.WriteString(")\n\n")
		} else {
			for _, im := range imps {
				b.WriteString("import " + impLine(im) + "\n")
			}
			b.WriteString("\n")
		}
	}
	f.Imports = imps

	// names first, so that field types can refer to any struct of the file
	var structNames, ifaceNames []string
	for si, ss := range g.Structs {
		name := names.next("Rec")
		switch {
		case si == 0 && g.SharedName:
			name = "Config"
			feats["type_name_used_in_several_files"] = true
		case si > 0 && ss.NameLike == 1:
			name = structNames[si-1] + "Item"
			feats["type_name_is_prefix_or_suffix_of_another"] = true
		case si > 0 && ss.NameLike == 2:
			name = "Sub" + structNames[si-1]
			feats["type_name_is_prefix_or_suffix_of_another"] = true
		}
		structNames = append(structNames, name)
	}
	for range g.Ifaces {
		ifaceNames = append(ifaceNames, names.next("Port"))
	}

	type decl struct {
		text string
		kind int // 0 type, 1 method, 2 function
		key  int
	}
	var decls []decl
	var typeBodies []string
	for si, ss := range g.Structs {
		st := GoStruct{Name: structNames[si]}
		var body strings.Builder
		body.WriteString(st.Name + " struct {\n")
		usedF := map[string]bool{}
		for i := 0; i < len(ss.Fields); i++ {
			fs := ss.Fields[i]
			text, tt, tv := renderType(fs.Type, structNames)
			if fs.Embed && (fs.Type.Kind == 0 || fs.Type.Kind == 1 || fs.Type.Kind == 3) && !usedF["embedded "+tv] && tv != st.Name {
				// an embedded field: no name in the source, the empty name in the model (as for unnamed parameters)
				usedF["embedded "+tv] = true
				body.WriteString("\t" + text + "\n")
				st.Fields = append(st.Fields, Prop{Name: "", TypeType: tt, TypeValue: tv})
				feats["embedded_field"] = true
				continue
			}
			fname := goFieldName[fs.Name%len(goFieldName)]
			for usedF[fname] {
				fname += "X"
			}
			usedF[fname] = true
			fnames := []string{fname}
			for i+1 < len(ss.Fields) && ss.Fields[i+1].Group && !pbt.Excluded("go_grouped_names") {
				i++
				nn := goFieldName[ss.Fields[i].Name%len(goFieldName)]
				for usedF[nn] {
					nn += "X"
				}
				usedF[nn] = true
				fnames = append(fnames, nn)
				feats["grouped_field_names"] = true
			}
			line := "\t" + strings.Join(fnames, ", ") + " " + text
			if fs.Tag {
				line += " `json:\"" + strings.ToLower(fname) + "\"`"
				feats["struct_tag"] = true
			}
			body.WriteString(line + "\n")
			for _, nn := range fnames {
				st.Fields = append(st.Fields, Prop{Name: nn, TypeType: tt, TypeValue: tv})
			}
		}
		body.WriteString("}")
		typeBodies = append(typeBodies, body.String())
		f.Structs = append(f.Structs, st)
		usedM := map[string]bool{}
		for _, ms := range ss.Methods {
			mname := goMethNames[ms.Name%len(goMethNames)]
			for usedM[mname] {
				mname += "Too"
			}
			usedM[mname] = true
			text, gf := renderFunc(ms, mname, st.Name, structNames, feats)
			f.Funcs = append(f.Funcs, gf)
			decls = append(decls, decl{text: text, kind: 1})
		}
	}
	for ii, is := range g.Ifaces {
		it := GoIface{Name: ifaceNames[ii]}
		var body strings.Builder
		body.WriteString(it.Name + " interface {\n")
		usedM := map[string]bool{}
		for _, m := range is.Methods {
			mname := goMethNames[m%len(goMethNames)]
			for usedM[mname] {
				mname += "Too"
			}
			usedM[mname] = true
			sig := []string{"()", "(a int) string", "(key string, val []byte) error"}[is.Params%3]
			body.WriteString("\t" + mname + sig + "\n")
			it.Methods = append(it.Methods, mname)
		}
		body.WriteString("}")
		typeBodies = append(typeBodies, body.String())
		f.Ifaces = append(f.Ifaces, it)
	}
	var typeDecls []decl
	if g.GroupTypes && len(typeBodies) > 1 {
		feats["type_declaration_group"] = true
		var tb strings.Builder
		tb.WriteString("type (\n")
		for _, body := range typeBodies {
			tb.WriteString("\t" + strings.ReplaceAll(body, "\n", "\n\t") + "\n\n")
		}
		tb.WriteString(")\n")
		typeDecls = append(typeDecls, decl{text: tb.String(), kind: 0})
	} else {
		for _, body := range typeBodies {
			typeDecls = append(typeDecls, decl{text: "type " + body + "\n", kind: 0})
		}
	}
	usedFn := map[string]bool{}
	var fnDecls []decl
	for _, fs := range g.Funcs {
		fname := goFuncNames[fs.Name%len(goFuncNames)]
		if fname != "main" && fname != "init" {
			fname += prefix // unique across the files of a project; the case of the first letter is kept
		}
		for usedFn[fname] && fname != "init" { // a file may declare init any number of times
			fname += "Two"
		}
		if usedFn[fname] {
			feats["init_declared_twice"] = true
		}
		usedFn[fname] = true
		text, gf := renderFunc(fs, fname, "", structNames, feats)
		f.Funcs = append(f.Funcs, gf)
		fnDecls = append(fnDecls, decl{text: text, kind: 2})
	}
	all := append(append(typeDecls, decls...), fnDecls...)
	if len(g.Order) > 0 && !pbt.Excluded("go_method_before_type") {
		for i := range all {
			all[i].key = g.Order[i%len(g.Order)]
		}
		sort.SliceStable(all, func(i, j int) bool { return all[i].key < all[j].key })
	}
	seenType := false
	for _, d := range all {
		if d.kind == 0 {
			seenType = true
		}
		if d.kind == 1 && !seenType {
			feats["method_before_its_type"] = true
		}
		if g.Comments && d.kind != 0 {
			b.WriteString("// generated declaration\n")
		}
		b.WriteString(d.text + "\n")
	}
	f.Code = b.String()
	if len(f.Structs)+len(f.Ifaces) >= 2 {
		feats["type_declarations>=2"] = true
	}
	for k := range feats {
		f.Features = append(f.Features, k)
	}
	sort.Strings(f.Features)
	mustParseGo(f.Path, f.Code)
	return f
}

// every generated Go text must be accepted by go/parser; anything else is a bug of this generator
func mustParseGo(name, code string) {
	if _, err := parser.ParseFile(token.NewFileSet(), name, code, 0); err != nil {
		panic(fmt.Sprintf("c20 generator bug: go/parser rejects the generated file: %v\n%s", err, code))
	}
}

// ---------------------------------------------------------------------------------------
// Go oracle

// expectedSource is the model's name of an import path (BuildImport: module prefix removed, "/" -> ".").
func expectedSource(path, module string) string {
	if module == "" {
		module = "github.com/modernizing/coca"
	}
	s := strings.ReplaceAll(strings.ReplaceAll(path, module, ""), "/", ".")
	return strings.TrimPrefix(s, ".")
}

func propsOf(list []core_domain.CodeProperty) []string {
	var out []string
	for _, p := range list {
		out = append(out, Prop{Name: p.ParamName, TypeType: p.TypeType, TypeValue: p.TypeValue}.String())
	}
	return out
}

func propStrings(list []Prop) []string {
	var out []string
	for _, p := range list {
		out = append(out, p.String())
	}
	return out
}

// judgeCalls: every X.F(...) expression statement is recorded exactly as often as it is written,
// a deferred call once or not at all; other entries (assignments, returns, unqualified calls) are not judged.
func judgeCalls(where string, got []core_domain.CodeCall, fn GoFunc) string {
	have := map[Call]int{}
	for _, c := range got {
		have[Call{Sel: c.NodeName, Fn: c.FunctionName}]++
	}
	want := map[Call]int{}
	for _, c := range fn.Calls {
		want[c]++
	}
	for _, c := range fn.Calls {
		if have[c] != want[c] {
			return fmt.Sprintf("%s: the call statement %s.%s() is written %d time(s) and recorded %d time(s)", where, c.Sel, c.Fn, want[c], have[c])
		}
	}
	dwant := map[Call]int{}
	for _, c := range fn.Defers {
		dwant[c]++
	}
	for c, n := range dwant {
		if have[c] > n {
			return fmt.Sprintf("%s: the deferred call %s.%s() is written %d time(s) and recorded %d time(s)", where, c.Sel, c.Fn, n, have[c])
		}
	}
	return ""
}

// judgeStructs checks the data structures of one file (or of a flattened project).
func judgeStructs(ds []core_domain.CodeDataStruct, files []GoFile, exactNames bool, extraAllowed map[string]bool) string {
	byName := map[string][]core_domain.CodeDataStruct{}
	var listed []string
	for _, d := range ds {
		byName[d.NodeName] = append(byName[d.NodeName], d)
		if !extraAllowed[d.NodeName] {
			listed = append(listed, d.NodeName)
		}
	}
	var declared []string
	for _, f := range files {
		for _, s := range f.Structs {
			declared = append(declared, s.Name)
		}
		for _, i := range f.Ifaces {
			declared = append(declared, i.Name)
		}
	}
	if msg := sameMultiset("data structures (structs and interfaces)", listed, declared); msg != "" {
		return msg
	}
	// a name may be declared in several files of a project (different directories): every declaration must have
	// its own entry, so the declarations of one name are paired one-to-one with the entries of that name
	judges := map[string][]func(d core_domain.CodeDataStruct) string{}
	var order []string
	add := func(name string, judge func(d core_domain.CodeDataStruct) string) {
		if judges[name] == nil {
			order = append(order, name)
		}
		judges[name] = append(judges[name], judge)
	}
	for _, f := range files {
		for _, s := range f.Structs {
			f, s := f, s
			add(s.Name, func(d core_domain.CodeDataStruct) string { return judgeStruct(d, f, s) })
		}
		for _, it := range f.Ifaces {
			it := it
			add(it.Name, func(d core_domain.CodeDataStruct) string { return judgeIface(d, it) })
		}
	}
	for _, name := range order {
		if msg := pairUp(len(judges[name]), len(byName[name]), func(i, j int) string { return judges[name][i](byName[name][j]) }); msg != "" {
			return msg
		}
	}
	return ""
}

// pairUp looks for a one-to-one pairing of n declarations with m entries (n == m, both small) such that
// judge(i, j) == "" for every pair; it returns "" or the first message met for the first declaration that cannot be paired.
func pairUp(n, m int, judge func(i, j int) string) string {
	used := make([]bool, m)
	firstMsg := make([]string, n)
	var try func(i int) bool
	try = func(i int) bool {
		if i == n {
			return true
		}
		for j := 0; j < m; j++ {
			if used[j] {
				continue
			}
			msg := judge(i, j)
			if msg != "" {
				if firstMsg[i] == "" {
					firstMsg[i] = msg
				}
				continue
			}
			used[j] = true
			if try(i + 1) {
				return true
			}
			used[j] = false
		}
		return false
	}
	if try(0) {
		return ""
	}
	for i := 0; i < n; i++ {
		if firstMsg[i] != "" {
			return firstMsg[i]
		}
	}
	return "the declarations of one name cannot be paired with the entries of that name"
}

func judgeStruct(d core_domain.CodeDataStruct, f GoFile, s GoStruct) string {
	if msg := sameSeq("fields of struct "+s.Name, propsOf(d.InOutProperties), propStrings(s.Fields)); msg != "" {
		return msg
	}
	var methods []string
	byMethod := map[string]GoFunc{}
	for _, fn := range f.Funcs {
		if fn.Recv == s.Name {
			methods = append(methods, fn.Name)
			byMethod[fn.Name] = fn
		}
	}
	var got []string
	for _, m := range d.Functions {
		got = append(got, m.Name)
	}
	if msg := sameMultiset("methods of struct "+s.Name, got, methods); msg != "" {
		return msg
	}
	for _, m := range d.Functions {
		if msg := judgeCalls("method "+s.Name+"."+m.Name, m.FunctionCalls, byMethod[m.Name]); msg != "" {
			return msg
		}
	}
	return ""
}

func judgeIface(d core_domain.CodeDataStruct, it GoIface) string {
	var got []string
	for _, p := range d.InOutProperties {
		got = append(got, p.ParamName)
	}
	if msg := sameMultiset("method set of interface "+it.Name, got, it.Methods); msg != "" {
		return msg
	}
	if len(d.Functions) != 0 {
		return fmt.Sprintf("interface %s is listed with methods of some struct: %d function(s)", it.Name, len(d.Functions))
	}
	return ""
}

func sameSeq(what string, got, want []string) string {
	if strings.Join(got, "\x00") != strings.Join(want, "\x00") || len(got) != len(want) {
		return fmt.Sprintf("%s: listed %v, declared %v", what, got, want)
	}
	return ""
}

// judgeContainer checks the model of one file.
func judgeContainer(c core_domain.CodeContainer, f GoFile, module string) string {
	if c.PackageName != f.Package {
		return fmt.Sprintf("package clause is %q, the model says %q", f.Package, c.PackageName)
	}
	var gotImp, wantImp []string
	for _, im := range c.Imports {
		gotImp = append(gotImp, im.Source+" as "+im.AsName)
	}
	for _, im := range f.Imports {
		wantImp = append(wantImp, expectedSource(im.Path, module)+" as "+im.Alias)
	}
	if msg := sameMultiset("imports (source as alias)", gotImp, wantImp); msg != "" {
		return msg
	}
	if msg := judgeStructs(c.DataStructures, []GoFile{f}, true, nil); msg != "" {
		return msg
	}
	// top-level functions: the members of type "method"
	var gotFn, wantFn []string
	for _, fn := range f.Funcs {
		if fn.Recv == "" {
			wantFn = append(wantFn, fn.Name)
		}
	}
	var nodes []core_domain.CodeFunction
	for _, m := range c.Members {
		for _, fn := range m.FunctionNodes {
			gotFn = append(gotFn, fn.Name)
			nodes = append(nodes, fn)
		}
	}
	if msg := sameMultiset("top-level functions", gotFn, wantFn); msg != "" {
		return msg
	}
	// a name declared several times (init): the declarations are paired one-to-one with the entries of that name
	wantsOf := map[string][]GoFunc{}
	nodesOf := map[string][]core_domain.CodeFunction{}
	for _, want := range f.Funcs {
		if want.Recv == "" {
			wantsOf[want.Name] = append(wantsOf[want.Name], want)
		}
	}
	for _, fn := range nodes {
		nodesOf[fn.Name] = append(nodesOf[fn.Name], fn)
	}
	for _, name := range sorted(wantFn) {
		ws, ns := wantsOf[name], nodesOf[name]
		if msg := pairUp(len(ws), len(ns), func(i, j int) string {
			if msg := sameSeq("parameters of function "+name, propsOf(ns[j].Parameters), propStrings(ws[i].Params)); msg != "" {
				return msg
			}
			return judgeCalls("function "+name, ns[j].FunctionCalls, ws[i])
		}); msg != "" {
			return msg
		}
	}
	return ""
}

// ---------------------------------------------------------------------------------------
// go_file

type GoCase struct {
	File    GoFile `json:"file"`
	ViaFile bool   `json:"viaFile"`
}

func genGoCase(t *rapid.T) GoCase {
	return GoCase{File: renderGo(drawGoSpec(t), "", "unit.go"), ViaFile: rapid.IntRange(0, 4).Draw(t, "viaFile") == 4}
}

func marshalOK(v interface{}) string {
	if _, err := json.Marshal(v); err != nil {
		return err.Error()
	}
	return ""
}

// runGoEntryPoints calls the three in-process entry points; judge is applied to each result.
func runGoEntryPoints(c GoCase, judge func(core_domain.CodeContainer) string) string {
	mustParseGo(c.File.Path, c.File.Code)
	var res *core_domain.CodeContainer
	ast_go.VerifResetAstGo()
	if p := call(func() { res = ast_go.NewCocagoParser().ProcessString(c.File.Code, c.File.Path, nil) }); p != "" {
		return "CocagoParser.ProcessString panicked on a file go/parser accepts: " + p
	}
	if msg := judge(*res); msg != "" {
		return "CocagoParser.ProcessString: " + msg
	}
	if e := marshalOK(res); e != "" {
		return "result of ProcessString cannot be marshalled: " + e
	}
	ast_go.VerifResetAstGo()
	var res2 core_domain.CodeContainer
	if p := call(func() { res2 = (&goapp.GoIdentApp{}).Analysis(c.File.Code, c.File.Path) }); p != "" {
		return "GoIdentApp.Analysis panicked on a file go/parser accepts: " + p
	}
	if msg := judge(res2); msg != "" {
		return "GoIdentApp.Analysis: " + msg
	}
	var members []core_domain.CodeMember
	if p := call(func() { members = (&goapp.GoIdentApp{}).IdentAnalysis(c.File.Code, c.File.Path) }); p != "" {
		return "GoIdentApp.IdentAnalysis panicked on a file go/parser accepts: " + p
	}
	_ = members
	if c.ViaFile {
		dir := cli.Scratch("c20go")
		defer os.RemoveAll(dir)
		cli.WriteTree(dir, map[string]string{c.File.Path: c.File.Code})
		ast_go.VerifResetAstGo()
		var res3 core_domain.CodeContainer
		if p := call(func() {
			res3 = ast_go.NewCocagoParser().ProcessFile(filepath.Join(dir, filepath.FromSlash(c.File.Path)))
		}); p != "" {
			return "CocagoParser.ProcessFile panicked on a file go/parser accepts: " + p
		}
		if msg := judge(res3); msg != "" {
			return "CocagoParser.ProcessFile: " + msg
		}
	}
	return ""
}

func goClasses(f GoFile) (classes []string, nonTrivial bool, canon string) {
	classes = append(classes, f.Features...)
	withMethods := 0
	methodsOf := map[string]int{}
	for _, fn := range f.Funcs {
		if fn.Recv != "" {
			methodsOf[fn.Recv]++
		}
	}
	for _, s := range f.Structs {
		if methodsOf[s.Name] > 0 {
			withMethods++
		}
	}
	for _, it := range f.Ifaces {
		if len(it.Methods) > 0 {
			withMethods++
		}
	}
	nonTrivial = len(f.Structs)+len(f.Ifaces) >= 2 && withMethods >= 2
	classes = append(classes, fmt.Sprintf("structs=%d", len(f.Structs)), fmt.Sprintf("interfaces=%d", len(f.Ifaces)))
	free := 0
	for _, fn := range f.Funcs {
		if fn.Recv == "" {
			free++
		}
	}
	if free > 0 {
		classes = append(classes, "top_level_functions")
	}
	if len(f.Imports) > 0 {
		classes = append(classes, "imports")
	}
	return classes, nonTrivial, ""
}

func checkGoCase(c GoCase) pbt.Verdict {
	if msg := runGoEntryPoints(c, func(res core_domain.CodeContainer) string { return judgeContainer(res, c.File, "") }); msg != "" {
		return pbt.Fail("%s\n--- %s\n%s", msg, c.File.Path, c.File.Code)
	}
	v := pbt.Verdict{}
	v.Classes, v.NonTrivial, _ = goClasses(c.File)
	if c.ViaFile {
		v.Classes = append(v.Classes, "via_ProcessFile")
	}
	return v
}
