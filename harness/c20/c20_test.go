// C20 — Go and Python front-ends list every declaration under its own name.
//
// Sub-checks (registered in c20_register_test.go):
//
//	go_file     generated Go files          -> CocagoParser.ProcessString / ProcessFile, GoIdentApp.Analysis
//	go_any      wider Go files              -> the same entry points, crash-freedom only
//	go_project  2-3 files (+ go.mod)        -> analysis.CommonAnalysis in process
//	go_cli      the same projects, fewer    -> binary of analysis/golang: analysis -p . => coca_reporter/godeps.json
//	py_module   generated Python modules    -> PythonIdentApp.Analysis
//	py_any      wider Python modules        -> crash-freedom only
//	py_project  2-3 modules                 -> analysis.CommonAnalysis in process
//	py_cli      the same projects, fewer    -> binary of analysis/python: analysis -p . => coca_reporter/pydeps.json
//
// This file: shared helpers and the Go side.
package c20

import (
	"encoding/json"
	"fmt"
	"go/parser"
	"go/token"
	"os"
	"path/filepath"
	"regexp"
	"sort"
	"strings"

	"github.com/modernizing/coca/pkg/application/analysis/goapp"
	"github.com/modernizing/coca/pkg/domain/core_domain"
	"github.com/modernizing/coca/pkg/infrastructure/ast/ast_go"
	"pgregory.net/rapid"

	"verif/internal/cli"
	"verif/internal/pbt"
)

// call runs f like pbt.Call and makes the panic text reproducible (rapid only minimises a failing
// case whose message is identical when the case is run again).
var unstable = regexp.MustCompile(`0x[0-9a-f]+\??|goroutine \d+`)

func call(f func()) string {
	p := pbt.Call(f)
	if p == "" {
		return ""
	}
	p = unstable.ReplaceAllString(p, "_")
	if len(p) > 1200 {
		p = p[:1200]
	}
	return p
}

func counts(list []string) map[string]int {
	m := map[string]int{}
	for _, s := range list {
		m[s]++
	}
	return m
}

func sortedKeys(m map[string]int) []string {
	var ks []string
	for k := range m {
		ks = append(ks, k)
	}
	sort.Strings(ks)
	return ks
}

// sameMultiset compares two name lists; the message names the first difference.
func sameMultiset(what string, got, want []string) string {
	g, w := counts(got), counts(want)
	for _, k := range sortedKeys(w) {
		if g[k] != w[k] {
			return fmt.Sprintf("%s: %q is declared %d time(s) and listed %d time(s); listed %v, declared %v", what, k, w[k], g[k], sorted(got), sorted(want))
		}
	}
	for _, k := range sortedKeys(g) {
		if w[k] == 0 {
			return fmt.Sprintf("%s: %q is listed but not declared; listed %v, declared %v", what, k, sorted(got), sorted(want))
		}
	}
	return ""
}

func sorted(l []string) []string {
	c := append([]string{}, l...)
	sort.Strings(c)
	return c
}

// ---------------------------------------------------------------------------------------
// ground truth of a generated Go file

type Prop struct {
	Name      string `json:"name"`
	TypeType  string `json:"typeType"`
	TypeValue string `json:"typeValue"`
}

func (p Prop) String() string { return p.Name + ":" + p.TypeType + "/" + p.TypeValue }

type Call struct {
	Sel string `json:"sel"`
	Fn  string `json:"fn"`
}

type GoFunc struct {
	Name   string `json:"name"`
	Recv   string `json:"recv,omitempty"` // "" = top-level function
	Params []Prop `json:"params"`
	Calls  []Call `json:"calls,omitempty"`  // X.F(...) written as expression statements
	Defers []Call `json:"defers,omitempty"` // defer X.F(...): recorded once or not at all
}

type GoStruct struct {
	Name   string `json:"name"`
	Fields []Prop `json:"fields"`
}

type GoIface struct {
	Name    string   `json:"name"`
	Methods []string `json:"methods"`
}

type GoImport struct {
	Path  string `json:"path"`
	Alias string `json:"alias,omitempty"`
}

type GoFile struct {
	Path     string     `json:"path"` // file name handed to the front-end
	Code     string     `json:"code"`
	Package  string     `json:"package"`
	Imports  []GoImport `json:"imports,omitempty"`
	Structs  []GoStruct `json:"structs,omitempty"`
	Ifaces   []GoIface  `json:"ifaces,omitempty"`
	Funcs    []GoFunc   `json:"funcs,omitempty"`
	Features []string   `json:"features,omitempty"`
}

// ---------------------------------------------------------------------------------------
// Go generator: a drawn specification, rendered deterministically

type typeSpec struct {
	Kind int // 0 ident, 1 pointer, 2 slice, 3 selector, 4 func, 5 interface{}
	Base int
	Qual bool // pointer/slice of a selector type
}

var (
	goBasic     = []string{"int", "string", "bool", "float64", "error", "byte"}
	goSelTypes  = []string{"sync.Mutex", "http.Client", "list.List", "time.Duration", "core.Engine"}
	goFuncTypes = []string{"func()", "func(a int) string", "func(string, int) (bool, error)"}
	goFieldName = []string{"name", "age", "ID", "items", "owner", "next", "count", "cb", "mu", "opts", "Value", "parent"}
	goParamName = []string{"a", "b", "ctx", "in", "out", "n", "key", "val"}
	goSelectors = []string{"fmt", "sync", "os", "http", "list", "core", "log", "strings"}
	goCallNames = []string{"Println", "Lock", "Unlock", "Do", "Close", "Add", "Write", "Run"}
	goDeferName = []string{"Done", "Release", "Flush"}
	goAssignFn  = []string{"NewThing", "Open", "Build"}
	goReturnFn  = []string{"Get", "Size", "Load"}
	goMethNames = []string{"String", "Len", "Push", "Pop", "Reset", "Area", "Save", "Run", "Process", "helper"} // the last three are also names of free functions
	goFuncNames = []string{"NewStack", "main", "helper", "Process", "init", "buildIndex", "Run", "parse"}
	goPkgNames  = []string{"main", "stack", "domain", "svc"}
	goImports   = []GoImport{{Path: "fmt"}, {Path: "sync"}, {Path: "os"}, {Path: "net/http"}, {Path: "container/list", Alias: "l"},
		{Path: "time", Alias: "."}, {Path: "embed", Alias: "_"}, {Path: "github.com/acme/widget/pkg/core"}, {Path: "example.org/lib/v2", Alias: "lib"},
		{Path: "github.com/modernizing/coca/pkg/domain/core_domain"}, {Path: "example.org/proj/internal/util"}, {Path: "strings"},
		// paths that share their last element with another import of the pool
		{Path: "text/template"}, {Path: "html/template", Alias: "htmpl"}, {Path: "example.org/proj/core", Alias: "pcore"}, {Path: "example.org/other/v2", Alias: "other"},
		// second round: a path that another entry of the pool imports under another name
		{Path: "fmt", Alias: "format"}, {Path: "net/http", Alias: "web"}, {Path: "example.org/proj/core", Alias: "core2"}}
)

// pools of the second round
var (
	goAltFieldNames = []string{"größe", "_", "x", "Ünicode", "a_very_long_field_name_" + strings.Repeat("y", 90), "default_", "func_", "Type"}
	goAltFuncNames  = []string{"Größe", "do_it", "M", "x", "Long" + strings.Repeat("Name", 40), "Struct", "method", "Default", "interface_", "Test_π"}
	goRecvNames     = []string{"r", "s", "this", "self", "recv", "_", "fmtx", "ß"}
	goAltDirs       = []string{"cmd/tool-x/", "api.v2/", "vendor/nats.go/", "pkg/x_test/", "Internal/Ünï/"}
	goAltReturns    = []string{"return n + 1, nil", "return &x, err", "return []int{1}, nil", "return -1", "return (x)", "return x.(error)"}
	// argument expressions of the kinds the first round never wrote
	goAltArgs = []string{"a + 1", "-1", "&x", "[]int{1, 2}", "arr[0]", "(x)", "x.(error)", "\"type Fake struct{}; func (f Fake) M() { fake.Call() }\"", "'c'", "*p",
		"m[\"k\"]", "x.y.z", "f(g(1))", "fmt.Sprintf(\"%d\", n.v)", "Point{X: 1}", "!ok", "a.b(c.d)", "`raw\\n`", "1 << 3", "x[1:2]"}
)

func drawType(t *rapid.T) typeSpec {
	ts := typeSpec{Kind: rapid.IntRange(0, 4).Draw(t, "typeKind"), Base: rapid.IntRange(0, 7).Draw(t, "typeBase"), Qual: rapid.Bool().Draw(t, "typeQualified")}
	if rapid.IntRange(0, 11).Draw(t, "emptyInterfaceType") == 11 {
		ts.Kind = 5
	}
	return ts
}

// renderType gives the Go text and the model's reading of it (TypeType, TypeValue), as the
// golden files of the repository show it: the element name without "*" / "[]", "func" for functions.
func renderType(ts typeSpec, structNames []string) (text, typeType, typeValue string) {
	base := goBasic[ts.Base%len(goBasic)]
	if len(structNames) > 0 && ts.Base >= len(goBasic) {
		base = structNames[(ts.Base-len(goBasic))%len(structNames)]
	}
	sel := goSelTypes[ts.Base%len(goSelTypes)]
	switch ts.Kind {
	case 0:
		return base, "Identify", base
	case 1:
		if ts.Qual {
			return "*" + sel, "Star", sel
		}
		return "*" + base, "Star", base
	case 2:
		if ts.Qual {
			return "[]" + sel, "ArrayType", sel
		}
		return "[]" + base, "ArrayType", base
	case 3:
		return sel, "", sel
	case 5:
		// pinned by testdata/regression/coll_stack.json
		return "interface{}", "interface{}", "interface{}"
	}
	return goFuncTypes[ts.Base%len(goFuncTypes)], "Function", "func"
}

type fieldSpec struct {
	Name  int
	Type  typeSpec
	Group bool // declared together with the previous field: "a, b T"
	Tag   bool
	Embed bool // struct fields only: an embedded field (no name); identifier, pointer and selector types only
	// NameForm: 0 = a name of the pool; k > 0 = goAltFieldNames[k-1] (non-ASCII, blank, one letter, very long)
	NameForm int
}

type stmtSpec struct {
	// Kind: 0 call pkg.F, 1 call on receiver/param, 2 defer, 3 assign from call, 4 plain assign, 5 plain call, 6 var decl, 7 incdec,
	// 8 call on a local variable assigned earlier; second round: 9 `a, b := pkg.Two()`, 10 assignment to a field, 11 `_ = x`,
	// 12 `total += 2`, 13 `var e = pkg.Make()`, 14 call pkg.F with arguments of the other expression kinds
	Kind int
	Sel  int
	Fn   int
	Args []int
}

type funcSpec struct {
	Name     int
	Params   []fieldSpec
	Unnamed  bool // parameters without names
	Results  int
	Stmts    []stmtSpec
	Return   int  // 0 none, 1 return, 2 return value(s), 3 return pkg.Get(), 4 return param.Size()
	PtrRecv  bool // methods only
	NoRecvNm bool // methods only: receiver without a name
	OneLine  bool
	// second round (zero value = the plain variant)
	NameForm  int  // k > 0: goAltFuncNames[k-1] instead of a name of the pool
	RecvName  int  // methods only: index into goRecvNames
	ReturnAlt int  // k > 0: goAltReturns[k-1] instead of the return drawn above
	NoBody    bool // top-level functions only: a declaration without body (implemented elsewhere)
	ParenRecv bool // methods only: the receiver type in parentheses, (r (*T)) or (r (T))
}

type structSpec struct {
	Fields  []fieldSpec
	Methods []funcSpec
	// NameLike: 1 = the name of the previous type of the file followed by "Item" (one name is a prefix of the other),
	// 2 = "Sub" followed by the name of the previous type (one name is a suffix of the other)
	NameLike int
	// NameForm: 0 Rec<n>; 1 unexported (rec<n>), 2 non-ASCII letters, 3 underscores and digits, 4 one letter, 5 very long
	NameForm int
}

type ifaceSpec struct {
	Methods  []int
	Params   int
	NameForm int // as for structs
}

type goSpec struct {
	Pkg        int
	Dir        int
	Imports    []int
	GroupedImp bool
	Structs    []structSpec
	Ifaces     []ifaceSpec
	Funcs      []funcSpec
	GroupTypes bool  // type ( ... ) declaration group
	Order      []int // sort keys of the top-level declarations; empty = types, then methods, then functions
	Comments   bool
	// SharedName: the first struct of the file is called Config, whatever the prefix: files of different
	// directories of a project may each declare a type of that name
	SharedName bool
	// second round (zero values = the plain variant)
	NoStructs   bool // the file declares interfaces and functions only
	RawImports  bool // import paths written as raw strings (back quotes)
	PkgTest     bool // a file named *_test.go belongs to the external test package <pkg>_test
	DirAlt      int  // k > 0: goAltDirs[k-1] instead of the directory drawn above
	CRLF        bool
	BOM         bool
	NoFinalNL   bool
	LeadBlank   bool // blank lines before the package clause
	DocComments bool // doc comments, trailing comments and /* */ between tokens, containing text that looks like declarations
	Compact     bool // struct types and bodies written on one line with ;
	LongLine    bool // one comment line of more than 65536 bytes
	Variant     bool // type names are built from Rek / Pord instead of Rec / Port: a text of the same length under other names
	SharedFunc  bool // the first top-level function is called Setup, whatever the prefix (packages of a project may share a function name)
}

var fieldSpecGen = rapid.Custom(func(t *rapid.T) fieldSpec {
	f := fieldSpec{Name: rapid.IntRange(0, len(goFieldName)-1).Draw(t, "fieldName"), Type: drawType(t),
		Group: rapid.IntRange(0, 5).Draw(t, "groupedName") == 5, Tag: rapid.IntRange(0, 7).Draw(t, "tag") == 7}
	if rapid.IntRange(0, 7).Draw(t, "otherFieldName") == 7 {
		f.NameForm = rapid.IntRange(1, len(goAltFieldNames)).Draw(t, "fieldNameForm")
	}
	return f
})

var stmtSpecGen = rapid.Custom(func(t *rapid.T) stmtSpec {
	st := stmtSpec{Kind: rapid.SampledFrom([]int{0, 0, 0, 1, 1, 2, 3, 4, 5, 6, 7, 3, 8, 8}).Draw(t, "stmtKind"),
		Sel: rapid.IntRange(0, 7).Draw(t, "selector"), Fn: rapid.IntRange(0, 7).Draw(t, "function"),
		Args: rapid.SliceOfN(rapid.IntRange(0, 7), 0, 2).Draw(t, "args")}
	if rapid.IntRange(0, 5).Draw(t, "otherStatement") == 5 {
		st.Kind = rapid.SampledFrom([]int{14, 14, 14, 9, 9, 10, 11, 12, 13}).Draw(t, "otherStatementKind")
		st.Args = rapid.SliceOfN(rapid.IntRange(0, len(goAltArgs)-1), 1, 3).Draw(t, "otherArgs")
	}
	return st
})

var funcSpecGen = rapid.Custom(func(t *rapid.T) funcSpec {
	f := funcSpec{}
	f.Name = rapid.IntRange(0, 7).Draw(t, "funcName")
	f.Params = rapid.SliceOfN(fieldSpecGen, 0, 3).Draw(t, "params")
	f.Unnamed = rapid.IntRange(0, 7).Draw(t, "unnamedParams") == 7
	f.Results = rapid.IntRange(0, 3).Draw(t, "results")
	f.Stmts = rapid.SliceOfN(stmtSpecGen, 0, 5).Draw(t, "body")
	f.Return = rapid.IntRange(0, 4).Draw(t, "return")
	f.PtrRecv = rapid.Bool().Draw(t, "pointerReceiver")
	f.NoRecvNm = rapid.IntRange(0, 4).Draw(t, "receiverWithoutName") == 4
	f.OneLine = rapid.IntRange(0, 9).Draw(t, "oneLineBody") == 9
	if rapid.IntRange(0, 7).Draw(t, "otherFuncName") == 7 {
		f.NameForm = rapid.IntRange(1, len(goAltFuncNames)).Draw(t, "funcNameForm")
	}
	if rapid.IntRange(0, 3).Draw(t, "otherReceiverName") == 3 {
		f.RecvName = rapid.IntRange(1, len(goRecvNames)-1).Draw(t, "receiverName")
	}
	if rapid.IntRange(0, 9).Draw(t, "otherReturn") == 9 {
		f.ReturnAlt = rapid.IntRange(1, len(goAltReturns)).Draw(t, "returnForm")
	}
	f.NoBody = rapid.IntRange(0, 15).Draw(t, "declarationWithoutBody") == 15
	f.ParenRecv = rapid.IntRange(0, 15).Draw(t, "receiverTypeInParentheses") == 15
	return f
})

var structSpecGen = rapid.Custom(func(t *rapid.T) structSpec {
	ss := structSpec{Fields: rapid.SliceOfN(fieldSpecGen, 0, 4).Draw(t, "fields"), Methods: rapid.SliceOfN(funcSpecGen, 0, 3).Draw(t, "methods")}
	for i := range ss.Fields {
		ss.Fields[i].Embed = rapid.IntRange(0, 6).Draw(t, "embeddedField") == 6
	}
	if rapid.IntRange(0, 3).Draw(t, "nameLikePrevious") == 3 {
		ss.NameLike = rapid.IntRange(1, 2).Draw(t, "nameLikeForm")
	}
	if rapid.IntRange(0, 3).Draw(t, "otherTypeName") == 3 {
		ss.NameForm = rapid.IntRange(1, 5).Draw(t, "typeNameForm")
	}
	return ss
})

var ifaceSpecGen = rapid.Custom(func(t *rapid.T) ifaceSpec {
	is := ifaceSpec{Methods: rapid.SliceOfN(rapid.IntRange(0, 6), 1, 3).Draw(t, "ifaceMethods"), Params: rapid.IntRange(0, 2).Draw(t, "ifaceParams")}
	if rapid.IntRange(0, 7).Draw(t, "emptyInterface") == 7 {
		is.Methods = nil // type P interface{}: listed once, with an empty method set
	}
	if rapid.IntRange(0, 3).Draw(t, "otherTypeName") == 3 {
		is.NameForm = rapid.IntRange(1, 5).Draw(t, "typeNameForm")
	}
	return is
})

func drawGoSpec(t *rapid.T) goSpec {
	g := goSpec{}
	g.Pkg = rapid.IntRange(0, len(goPkgNames)-1).Draw(t, "package")
	g.Dir = rapid.IntRange(0, 2).Draw(t, "directory")
	g.Imports = rapid.SliceOfN(rapid.IntRange(0, len(goImports)-1), 0, 4).Draw(t, "imports")
	g.GroupedImp = rapid.Bool().Draw(t, "groupedImports")
	g.Structs = rapid.SliceOfN(structSpecGen, 1, 4).Draw(t, "structs")
	g.Ifaces = rapid.SliceOfN(ifaceSpecGen, 0, 2).Draw(t, "interfaces")
	g.Funcs = rapid.SliceOfN(funcSpecGen, 0, 3).Draw(t, "functions")
	g.GroupTypes = rapid.IntRange(0, 5).Draw(t, "typeGroup") == 5
	if rapid.IntRange(0, 2).Draw(t, "shuffleDeclarations") == 2 {
		g.Order = rapid.SliceOfN(rapid.IntRange(0, 9), 12, 12).Draw(t, "declarationOrder")
	}
	g.Comments = rapid.IntRange(0, 3).Draw(t, "comments") == 3
	g.SharedName = rapid.IntRange(0, 2).Draw(t, "sharedTypeName") == 2
	// second round: every new shape behind its own draw
	g.NoStructs = rapid.IntRange(0, 9).Draw(t, "noStructs") == 9
	if rapid.IntRange(0, 11).Draw(t, "many") == 11 {
		// past 8 / 16 elements of every list the front-end appends to
		g.Structs = append(g.Structs, rapid.SliceOfN(structSpecGen, 1, 9).Draw(t, "moreStructs")...)
		g.Ifaces = append(g.Ifaces, rapid.SliceOfN(ifaceSpecGen, 0, 4).Draw(t, "moreInterfaces")...)
		g.Funcs = append(g.Funcs, rapid.SliceOfN(funcSpecGen, 0, 9).Draw(t, "moreFunctions")...)
		g.Imports = append(g.Imports, rapid.SliceOfN(rapid.IntRange(0, len(goImports)-1), 0, 14).Draw(t, "moreImports")...)
		s0 := &g.Structs[0]
		s0.Fields = append(s0.Fields, rapid.SliceOfN(fieldSpecGen, 0, 14).Draw(t, "moreFields")...)
		s0.Methods = append(s0.Methods, rapid.SliceOfN(funcSpecGen, 0, 14).Draw(t, "moreMethods")...)
		var f0 *funcSpec
		if len(s0.Methods) > 0 {
			f0 = &s0.Methods[0]
		} else if len(g.Funcs) > 0 {
			f0 = &g.Funcs[0]
		}
		if f0 != nil {
			f0.Params = append(f0.Params, rapid.SliceOfN(fieldSpecGen, 0, 8).Draw(t, "moreParams")...)
			f0.Stmts = append(f0.Stmts, rapid.SliceOfN(stmtSpecGen, 0, 30).Draw(t, "moreStatements")...)
		}
		if len(g.Ifaces) > 0 && len(g.Ifaces[0].Methods) > 0 {
			g.Ifaces[0].Methods = append(g.Ifaces[0].Methods, rapid.SliceOfN(rapid.IntRange(0, 6), 0, 12).Draw(t, "moreInterfaceMethods")...)
		}
	}
	g.SharedFunc = rapid.IntRange(0, 3).Draw(t, "sharedFunctionName") == 3
	g.RawImports = rapid.IntRange(0, 7).Draw(t, "rawStringImports") == 7
	g.PkgTest = rapid.IntRange(0, 2).Draw(t, "externalTestPackage") == 2
	if rapid.IntRange(0, 5).Draw(t, "otherDirectory") == 5 {
		g.DirAlt = rapid.IntRange(1, len(goAltDirs)).Draw(t, "directoryForm")
	}
	if rapid.IntRange(0, 3).Draw(t, "otherLayout") == 3 {
		g.CRLF = rapid.IntRange(0, 3).Draw(t, "crlf") == 3
		g.BOM = rapid.IntRange(0, 3).Draw(t, "byteOrderMark") == 3
		g.NoFinalNL = rapid.IntRange(0, 3).Draw(t, "noFinalNewline") == 3
		g.LeadBlank = rapid.IntRange(0, 3).Draw(t, "leadingBlankLines") == 3
		g.DocComments = rapid.IntRange(0, 1).Draw(t, "docComments") == 1
		g.Compact = rapid.IntRange(0, 2).Draw(t, "compact") == 2
		g.LongLine = rapid.IntRange(0, 9).Draw(t, "veryLongLine") == 9
	}
	return g
}

type goNames struct {
	prefix string
	seq    int
}

func (n *goNames) next(base string) string {
	n.seq++
	return fmt.Sprintf("%s%s%d", n.prefix, base, n.seq)
}

// goStyle: how the text of a file is laid out; nothing of it changes what the file declares.
type goStyle struct {
	DocComments bool
	Compact     bool
}

// renderFunc renders one function or method and records its ground truth.
func renderFunc(fs funcSpec, name, recvType string, structNames []string, feats map[string]bool, style goStyle) (string, GoFunc) {
	gf := GoFunc{Name: name, Recv: recvType}
	var b strings.Builder
	between := func(text string) string { // a comment between two tokens
		if style.DocComments {
			feats["comment_between_tokens"] = true
			return "/* " + text + " */ "
		}
		return ""
	}
	b.WriteString("func " + between("func fake()"))
	recvName := ""
	used := map[string]bool{"r": true}
	if recvType != "" {
		star := ""
		if fs.PtrRecv {
			star = "*"
			feats["pointer_receiver"] = true
		} else {
			feats["value_receiver"] = true
		}
		rtype := star + recvType
		if fs.ParenRecv && !pbt.Excluded("go_parenthesised_receiver") {
			rtype = "(" + rtype + ")"
			feats["receiver_type_in_parentheses"] = true
		}
		if fs.NoRecvNm {
			b.WriteString("(" + rtype + ") ")
		} else {
			recvName = goRecvNames[fs.RecvName%len(goRecvNames)]
			if recvName != "r" {
				feats["receiver_named_other_than_r"] = true
			}
			used[recvName] = true
			b.WriteString("(" + recvName + " " + rtype + ") ")
			if recvName == "_" {
				recvName = "" // the blank receiver cannot be called on
			}
		}
		b.WriteString(between("type Fake struct{}"))
	}
	b.WriteString(name + "(")
	// parameters
	var paramNames []string
	var parts []string
	paramName := func(ps fieldSpec) string {
		pname := goParamName[ps.Name%len(goParamName)]
		if ps.NameForm > 0 {
			pname = goAltFieldNames[(ps.NameForm-1)%len(goAltFieldNames)]
			feats["parameter_name:"+nameClass(pname)] = true
		}
		for used[pname] && pname != "_" { // the blank name may be used any number of times
			pname += "x"
		}
		used[pname] = true
		return pname
	}
	for i := 0; i < len(fs.Params); i++ {
		ps := fs.Params[i]
		text, tt, tv := renderType(ps.Type, structNames)
		if ps.Type.Kind == 5 {
			feats["type_interface{}"] = true
		}
		if fs.Unnamed {
			parts = append(parts, text)
			gf.Params = append(gf.Params, Prop{Name: "", TypeType: tt, TypeValue: tv})
			continue
		}
		names := []string{paramName(ps)}
		// "a, b T": the following parameters marked Group share this type
		for i+1 < len(fs.Params) && fs.Params[i+1].Group && !pbt.Excluded("go_grouped_names") {
			i++
			names = append(names, paramName(fs.Params[i]))
			feats["grouped_parameter_names"] = true
		}
		parts = append(parts, strings.Join(names, ", ")+" "+text)
		for _, nn := range names {
			gf.Params = append(gf.Params, Prop{Name: nn, TypeType: tt, TypeValue: tv})
			if nn != "_" {
				paramNames = append(paramNames, nn)
			}
		}
	}
	if len(gf.Params) > 8 {
		feats["parameters>8"] = true
	}
	if style.Compact && len(parts) > 1 {
		// one parameter per line
		b.WriteString("\n\t" + strings.Join(parts, ",\n\t") + ",\n)")
		feats["parameters_over_several_lines"] = true
	} else {
		b.WriteString(strings.Join(parts, ", ") + ")")
	}
	switch fs.Results {
	case 1:
		b.WriteString(" int")
	case 2:
		b.WriteString(" (int, error)")
	case 3:
		b.WriteString(" (n int, err error)")
	}
	if fs.NoBody && recvType == "" && !pbt.Excluded("go_bodyless_func") {
		feats["function_declaration_without_body"] = true
		b.WriteString("\n")
		return b.String(), gf
	}
	b.WriteString(" {")
	var lines []string
	arg := func(k int) string {
		switch k % 8 {
		case 0:
			return "1"
		case 1:
			return "\"s\""
		case 2:
			return "nil"
		case 3:
			return "os.Args"
		case 4:
			return "core.Default()"
		case 5:
			if len(paramNames) > 0 {
				return paramNames[0]
			}
			return "true"
		case 6:
			return "x"
		}
		return "2.5"
	}
	args := func(ks []int) string {
		var as []string
		for _, k := range ks {
			as = append(as, arg(k))
		}
		return strings.Join(as, ", ")
	}
	altArgs := func(ks []int) string {
		var as []string
		for _, k := range ks {
			as = append(as, goAltArgs[k%len(goAltArgs)])
		}
		return strings.Join(as, ", ")
	}
	target := func(k int) string { // a receiver or parameter to call a method on
		if recvName != "" && (k%2 == 0 || len(paramNames) == 0) {
			return recvName
		}
		if len(paramNames) > 0 {
			return paramNames[k%len(paramNames)]
		}
		return ""
	}
	var locals []string // variables assigned from a call further up in this body
	for _, st := range fs.Stmts {
		switch st.Kind {
		case 8:
			if len(locals) == 0 {
				continue
			}
			c := Call{Sel: locals[st.Sel%len(locals)], Fn: goCallNames[st.Fn%len(goCallNames)]}
			lines = append(lines, c.Sel+"."+c.Fn+"("+args(st.Args)+")")
			gf.Calls = append(gf.Calls, c)
			feats["local_variable_call_statement"] = true
		case 0:
			c := Call{Sel: goSelectors[st.Sel%len(goSelectors)], Fn: goCallNames[st.Fn%len(goCallNames)]}
			lines = append(lines, c.Sel+"."+c.Fn+"("+args(st.Args)+")")
			gf.Calls = append(gf.Calls, c)
			feats["package_call_statement"] = true
		case 1:
			tg := target(st.Sel)
			if tg == "" {
				continue
			}
			c := Call{Sel: tg, Fn: goCallNames[st.Fn%len(goCallNames)]}
			lines = append(lines, c.Sel+"."+c.Fn+"("+args(st.Args)+")")
			gf.Calls = append(gf.Calls, c)
			feats["receiver_or_parameter_call_statement"] = true
		case 2:
			c := Call{Sel: goSelectors[st.Sel%len(goSelectors)], Fn: goDeferName[st.Fn%len(goDeferName)]}
			if tg := target(st.Sel); tg != "" && st.Fn%2 == 1 {
				c.Sel = tg
			}
			lines = append(lines, "defer "+c.Sel+"."+c.Fn+"("+args(st.Args)+")")
			gf.Defers = append(gf.Defers, c)
			feats["defer"] = true
		case 3:
			locals = append(locals, fmt.Sprintf("v%d", len(lines)))
			lines = append(lines, fmt.Sprintf("v%d := %s.%s(%s)", len(lines), goSelectors[st.Sel%len(goSelectors)], goAssignFn[st.Fn%len(goAssignFn)], args(st.Args)))
			feats["assignment_from_call"] = true
		case 4:
			lines = append(lines, fmt.Sprintf("w%d := %s", len(lines), arg(st.Fn)))
		case 5:
			lines = append(lines, fmt.Sprintf("plain%d(%s)", st.Fn%3, args(st.Args)))
			feats["unqualified_call_statement"] = true
		case 6:
			lines = append(lines, fmt.Sprintf("var t%d int", len(lines)))
		case 7:
			lines = append(lines, "counter++")
		case 9:
			a := fmt.Sprintf("p%d", len(lines))
			locals = append(locals, a)
			lines = append(lines, fmt.Sprintf("%s, q%d := %s.%s(%s)", a, len(lines), goSelectors[st.Sel%len(goSelectors)], goAssignFn[st.Fn%len(goAssignFn)], altArgs(st.Args)))
			feats["assignment_of_two_values_from_call"] = true
		case 10:
			tg := target(st.Sel)
			if tg == "" {
				tg = "state"
			}
			lines = append(lines, tg+".count = "+altArgs(st.Args[:1]))
			feats["assignment_to_field"] = true
		case 11:
			lines = append(lines, "_ = "+altArgs(st.Args[:1]))
			feats["other_assignment_forms"] = true
		case 12:
			lines = append(lines, "total += "+altArgs(st.Args[:1]))
			feats["other_assignment_forms"] = true
		case 13:
			lines = append(lines, fmt.Sprintf("var e%d = %s.%s(%s)", len(lines), goSelectors[st.Sel%len(goSelectors)], goAssignFn[st.Fn%len(goAssignFn)], altArgs(st.Args)))
			feats["var_declaration_from_call"] = true
		case 14:
			c := Call{Sel: goSelectors[st.Sel%len(goSelectors)], Fn: goCallNames[st.Fn%len(goCallNames)]}
			if tg := target(st.Sel); tg != "" && st.Fn%2 == 1 {
				c.Sel = tg
			}
			lines = append(lines, c.Sel+"."+c.Fn+"("+altArgs(st.Args)+")")
			gf.Calls = append(gf.Calls, c)
			feats["call_statement_with_other_argument_kinds"] = true
		}
	}
	if len(gf.Calls) > 8 {
		feats["call_statements>8"] = true
	}
	if fs.ReturnAlt > 0 {
		fs.Return = 0
		lines = append(lines, goAltReturns[(fs.ReturnAlt-1)%len(goAltReturns)])
		feats["other_return_forms"] = true
	}
	switch fs.Return {
	case 1:
		lines = append(lines, "return")
	case 2:
		lines = append(lines, "return 0, nil")
	case 3:
		lines = append(lines, "return "+goSelectors[fs.Name%len(goSelectors)]+"."+goReturnFn[fs.Name%len(goReturnFn)]+"()")
	case 4:
		if len(paramNames) > 0 {
			lines = append(lines, "return "+paramNames[0]+"."+goReturnFn[fs.Name%len(goReturnFn)]+"()")
		}
	}
	if style.Compact && len(lines) > 1 {
		b.WriteString(" " + strings.Join(lines, "; ") + " }\n")
		feats["statements_on_one_line"] = true
	} else if fs.OneLine && len(lines) <= 1 {
		b.WriteString(" " + strings.Join(lines, "") + " }\n")
	} else {
		b.WriteString("\n")
		for _, l := range lines {
			b.WriteString("\t" + l + "\n")
		}
		b.WriteString("}\n")
	}
	return b.String(), gf
}

// renderGo renders the specification. prefix makes type and function names unique across the files of a project.
func renderGo(g goSpec, prefix string, fileName string) GoFile {
	f := GoFile{Package: goPkgNames[g.Pkg%len(goPkgNames)]}
	dir := []string{"", "pkg/stack/", "internal/app/svc/"}[g.Dir%3]
	feats := map[string]bool{}
	if g.DirAlt > 0 && strings.HasSuffix(goAltDirs[(g.DirAlt-1)%len(goAltDirs)], ".go/") && pbt.Excluded("go_directory_named_like_go_file") {
		g.DirAlt = 0
	}
	if g.DirAlt > 0 {
		dir = goAltDirs[(g.DirAlt-1)%len(goAltDirs)]
		feats["directory:"+strings.TrimSuffix(dir, "/")] = true
	}
	f.Path = dir + fileName
	if g.PkgTest && strings.HasSuffix(fileName, "_test.go") {
		f.Package += "_test"
		feats["external_test_package"] = true
	}
	style := goStyle{DocComments: g.DocComments, Compact: g.Compact}
	names := &goNames{prefix: prefix}
	var b strings.Builder
	if g.LeadBlank {
		b.WriteString("\n\n")
		feats["leading_blank_lines"] = true
	}
	if g.Comments {
		b.WriteString("// Package " + f.Package + " is generated.\n")
	}
	if g.DocComments {
		b.WriteString("/*\npackage fake\n\nimport \"fake/pkg\"\n\ntype Fake struct {\n\tfake int\n}\n\nfunc (f *Fake) FakeMethod() {\n\tfake.Call()\n}\n*/\n\n")
		feats["comments_that_look_like_declarations"] = true
	}
	b.WriteString("package " + f.Package + "\n\n")
	if g.LongLine {
		b.WriteString("// " + strings.Repeat("long line ", 7000) + "\n\n")
		feats["line_longer_than_65536_bytes"] = true
	}

	// imports (distinct)
	seenImp := map[int]bool{}
	var imps []GoImport
	for _, i := range g.Imports {
		if !seenImp[i%len(goImports)] {
			seenImp[i%len(goImports)] = true
			imps = append(imps, goImports[i%len(goImports)])
		}
	}
	nPaths := map[string]int{}
	for _, im := range imps {
		nPaths[im.Path]++
		if nPaths[im.Path] > 1 {
			feats["one_path_imported_under_two_names"] = true
		}
	}
	if len(imps) > 8 {
		feats["imports>8"] = true
	}
	impLine := func(im GoImport) string {
		q := "\""
		if g.RawImports {
			q = "`"
			feats["import_path_as_raw_string"] = true
		}
		tail := ""
		if g.DocComments {
			tail = " // import \"fake/trailing\""
		}
		if im.Alias != "" {
			feats["import_alias"] = true
			return im.Alias + " " + q + im.Path + q + tail
		}
		return q + im.Path + q + tail
	}
	if len(imps) > 0 {
		if g.GroupedImp || len(imps) > 2 {
			b.WriteString("import (\n")
			for _, im := range imps {
				b.WriteString("\t" + impLine(im) + "\n")
			}
			b.WriteString(")\n\n")
		} else {
			for _, im := range imps {
				b.WriteString("import " + impLine(im) + "\n")
			}
			b.WriteString("\n")
		}
	}
	f.Imports = imps

	// names first, so that field types can refer to any struct of the file
	if g.NoStructs {
		g.Structs = nil
		feats["file_without_struct"] = true
	}
	recBase, portBase := "Rec", "Port"
	if g.Variant {
		recBase, portBase = "Rek", "Pord"
	}
	usedType := map[string]bool{}
	typeName := func(base string, form int) string {
		name := names.next(base)
		switch form {
		case 1:
			name = strings.ToLower(name[:1]) + name[1:]
			feats["type_name:unexported"] = true
		case 2:
			name = prefix + map[string]string{"Rec": "Größe", "Rek": "Grösse", "Port": "Ärger", "Pord": "Äther"}[base] + fmt.Sprint(names.seq)
			feats["type_name:non_ascii"] = true
		case 3:
			name = fmt.Sprintf("%s%s_%d_v2", prefix, base, names.seq)
			feats["type_name:underscores_and_digits"] = true
		case 4:
			name = prefix + string(rune('T'+names.seq%7))
			feats["type_name:one_letter"] = true
		case 5:
			name = prefix + base + strings.Repeat("VeryLongName", 10) + fmt.Sprint(names.seq)
			feats["type_name:very_long"] = true
		}
		for usedType[name] {
			name += fmt.Sprint(names.seq)
		}
		usedType[name] = true
		return name
	}
	var structNames, ifaceNames []string
	for si, ss := range g.Structs {
		name := typeName(recBase, ss.NameForm)
		switch {
		case si == 0 && g.SharedName:
			name = "Config"
			feats["type_name_used_in_several_files"] = true
		case si > 0 && ss.NameLike == 1:
			name = structNames[si-1] + "Item"
			feats["type_name_is_prefix_or_suffix_of_another"] = true
		case si > 0 && ss.NameLike == 2:
			name = "Sub" + structNames[si-1]
			feats["type_name_is_prefix_or_suffix_of_another"] = true
		}
		usedType[name] = true
		structNames = append(structNames, name)
	}
	for _, is := range g.Ifaces {
		ifaceNames = append(ifaceNames, typeName(portBase, is.NameForm))
	}
	if len(structNames)+len(ifaceNames) > 8 {
		feats["type_declarations>8"] = true
	}
	altFuncName := func(form int) string {
		n := goAltFuncNames[(form-1)%len(goAltFuncNames)]
		feats["function_or_method_name:"+nameClass(n)] = true
		return n
	}

	type decl struct {
		text string
		kind int // 0 type, 1 method, 2 function
		key  int
	}
	var decls []decl
	var typeBodies []string
	for si, ss := range g.Structs {
		st := GoStruct{Name: structNames[si]}
		var body strings.Builder
		var fieldLines []string
		usedF := map[string]bool{}
		fieldName := func(fs fieldSpec) string {
			fname := goFieldName[fs.Name%len(goFieldName)]
			if fs.NameForm > 0 {
				fname = goAltFieldNames[(fs.NameForm-1)%len(goAltFieldNames)]
				feats["field_name:"+nameClass(fname)] = true
			}
			for usedF[fname] && fname != "_" { // a struct may have any number of blank fields
				fname += "X"
			}
			usedF[fname] = true
			return fname
		}
		for i := 0; i < len(ss.Fields); i++ {
			fs := ss.Fields[i]
			text, tt, tv := renderType(fs.Type, structNames)
			if fs.Type.Kind == 5 {
				feats["type_interface{}"] = true
			}
			if fs.Embed && (fs.Type.Kind == 0 || fs.Type.Kind == 1 || fs.Type.Kind == 3) && !usedF["embedded "+tv] && tv != st.Name {
				// an embedded field: no name in the source, the empty name in the model (as for unnamed parameters)
				usedF["embedded "+tv] = true
				fieldLines = append(fieldLines, text)
				st.Fields = append(st.Fields, Prop{Name: "", TypeType: tt, TypeValue: tv})
				feats["embedded_field"] = true
				continue
			}
			fname := fieldName(fs)
			fnames := []string{fname}
			for i+1 < len(ss.Fields) && ss.Fields[i+1].Group && !pbt.Excluded("go_grouped_names") {
				i++
				fnames = append(fnames, fieldName(ss.Fields[i]))
				feats["grouped_field_names"] = true
			}
			line := strings.Join(fnames, ", ") + " " + text
			if fs.Tag {
				line += " `json:\"" + strings.ToLower(fname) + "\"`"
				feats["struct_tag"] = true
			}
			fieldLines = append(fieldLines, line)
			for _, nn := range fnames {
				st.Fields = append(st.Fields, Prop{Name: nn, TypeType: tt, TypeValue: tv})
			}
		}
		if len(st.Fields) > 8 {
			feats["fields>8"] = true
		}
		if g.Compact {
			// the whole struct type on one line
			body.WriteString(st.Name + " struct{ " + strings.Join(fieldLines, "; ") + " }")
			if len(fieldLines) == 0 {
				body.Reset()
				body.WriteString(st.Name + " struct{}")
			}
			feats["struct_type_on_one_line"] = true
		} else {
			body.WriteString(st.Name + " struct {\n")
			for k, line := range fieldLines {
				if g.DocComments && k%2 == 0 {
					body.WriteString("\t// fake int; type Fake interface { M() }\n")
				}
				body.WriteString("\t" + line)
				if g.DocComments && k%2 == 1 {
					body.WriteString(" // fake.Call()")
				}
				body.WriteString("\n")
			}
			body.WriteString("}")
		}
		typeBodies = append(typeBodies, body.String())
		f.Structs = append(f.Structs, st)
		usedM := map[string]bool{}
		nMethods := 0
		for _, ms := range ss.Methods {
			mname := goMethNames[ms.Name%len(goMethNames)]
			if ms.NameForm > 0 {
				mname = altFuncName(ms.NameForm)
			}
			for usedM[mname] {
				mname += "Too"
			}
			usedM[mname] = true
			text, gf := renderFunc(ms, mname, st.Name, structNames, feats, style)
			f.Funcs = append(f.Funcs, gf)
			decls = append(decls, decl{text: text, kind: 1})
			nMethods++
		}
		if nMethods > 8 {
			feats["methods_of_one_struct>8"] = true
		}
	}
	for ii, is := range g.Ifaces {
		it := GoIface{Name: ifaceNames[ii]}
		var body strings.Builder
		body.WriteString(it.Name + " interface {\n")
		usedM := map[string]bool{}
		for _, m := range is.Methods {
			mname := goMethNames[m%len(goMethNames)]
			for usedM[mname] {
				mname += "Too"
			}
			usedM[mname] = true
			sig := []string{"()", "(a int) string", "(key string, val []byte) error"}[is.Params%3]
			body.WriteString("\t" + mname + sig + "\n")
			it.Methods = append(it.Methods, mname)
		}
		if len(it.Methods) > 8 {
			feats["interface_methods>8"] = true
		}
		body.WriteString("}")
		typeBodies = append(typeBodies, body.String())
		f.Ifaces = append(f.Ifaces, it)
	}
	var typeDecls []decl
	if g.GroupTypes && len(typeBodies) > 1 {
		feats["type_declaration_group"] = true
		var tb strings.Builder
		tb.WriteString("type (\n")
		for _, body := range typeBodies {
			tb.WriteString("\t" + strings.ReplaceAll(body, "\n", "\n\t") + "\n\n")
		}
		tb.WriteString(")\n")
		typeDecls = append(typeDecls, decl{text: tb.String(), kind: 0})
	} else {
		for _, body := range typeBodies {
			doc := ""
			if g.DocComments {
				doc = "// type Fake struct { fake int }\n// func (f Fake) Method() {}\n"
			}
			typeDecls = append(typeDecls, decl{text: doc + "type " + body + "\n", kind: 0})
		}
	}
	usedFn := map[string]bool{}
	var fnDecls []decl
	for _, fs := range g.Funcs {
		fname := goFuncNames[fs.Name%len(goFuncNames)]
		if fs.NameForm > 0 {
			fname = altFuncName(fs.NameForm)
		}
		if fname != "main" && fname != "init" {
			fname += prefix // unique across the files of a project; the case of the first letter is kept
		}
		if g.SharedFunc && len(fnDecls) == 0 {
			fname = "Setup"
			feats["function_name_used_in_several_files"] = true
		}
		for usedFn[fname] && fname != "init" { // a file may declare init any number of times
			fname += "Two"
		}
		if usedFn[fname] {
			feats["init_declared_twice"] = true
		}
		usedFn[fname] = true
		text, gf := renderFunc(fs, fname, "", structNames, feats, style)
		f.Funcs = append(f.Funcs, gf)
		fnDecls = append(fnDecls, decl{text: text, kind: 2})
	}
	all := append(append(typeDecls, decls...), fnDecls...)
	if len(g.Order) > 0 && !pbt.Excluded("go_method_before_type") {
		for i := range all {
			all[i].key = g.Order[i%len(g.Order)]
		}
		sort.SliceStable(all, func(i, j int) bool { return all[i].key < all[j].key })
	}
	seenType := false
	for _, d := range all {
		if d.kind == 0 {
			seenType = true
		}
		if d.kind == 1 && !seenType {
			feats["method_before_its_type"] = true
		}
		if g.Comments && d.kind != 0 {
			b.WriteString("// generated declaration\n")
		}
		b.WriteString(d.text + "\n")
	}
	f.Code = b.String()
	if g.NoFinalNL {
		f.Code = strings.TrimRight(f.Code, "\n")
		feats["no_final_newline"] = true
	}
	if g.CRLF {
		f.Code = strings.ReplaceAll(f.Code, "\n", "\r\n")
		feats["crlf"] = true
	}
	if g.BOM {
		f.Code = "\ufeff" + f.Code
		feats["byte_order_mark"] = true
	}
	if g.Variant {
		feats["same_path_other_names"] = true
	}
	nFree := 0
	for _, fn := range f.Funcs {
		if fn.Recv == "" {
			nFree++
		}
	}
	if nFree > 8 {
		feats["top_level_functions>8"] = true
	}
	if len(f.Structs)+len(f.Ifaces) >= 2 {
		feats["type_declarations>=2"] = true
	}
	for k := range feats {
		f.Features = append(f.Features, k)
	}
	sort.Strings(f.Features)
	mustParseGo(f.Path, f.Code)
	return f
}

// nameClass says which family of the second round's names a name belongs to.
func nameClass(n string) string {
	switch {
	case n == "_":
		return "blank"
	case len([]rune(n)) == 1:
		return "one_letter"
	case len(n) > 60:
		return "very_long"
	case len(n) != len([]rune(n)):
		return "non_ascii"
	case strings.Contains(n, "_"):
		return "with_underscore"
	}
	return "word_of_the_model" // Struct, method, Default, Type, ...
}

// every generated Go text must be accepted by go/parser; anything else is a bug of this generator
func mustParseGo(name, code string) {
	if _, err := parser.ParseFile(token.NewFileSet(), name, code, 0); err != nil {
		panic(fmt.Sprintf("c20 generator bug: go/parser rejects the generated file: %v\n%s", err, code))
	}
}

// ---------------------------------------------------------------------------------------
// Go oracle

// expectedSource is the model's name of an import path (BuildImport: module prefix removed, "/" -> ".").
func expectedSource(path, module string) string {
	if module == "" {
		module = "github.com/modernizing/coca"
	}
	s := strings.ReplaceAll(strings.ReplaceAll(path, module, ""), "/", ".")
	return strings.TrimPrefix(s, ".")
}

func propsOf(list []core_domain.CodeProperty) []string {
	var out []string
	for _, p := range list {
		out = append(out, Prop{Name: p.ParamName, TypeType: p.TypeType, TypeValue: p.TypeValue}.String())
	}
	return out
}

func propStrings(list []Prop) []string {
	var out []string
	for _, p := range list {
		out = append(out, p.String())
	}
	return out
}

// judgeCalls: every X.F(...) expression statement is recorded exactly as often as it is written,
// a deferred call once or not at all; other entries (assignments, returns, unqualified calls) are not judged.
func judgeCalls(where string, got []core_domain.CodeCall, fn GoFunc) string {
	have := map[Call]int{}
	for _, c := range got {
		have[Call{Sel: c.NodeName, Fn: c.FunctionName}]++
	}
	want := map[Call]int{}
	for _, c := range fn.Calls {
		want[c]++
	}
	for _, c := range fn.Calls {
		if have[c] != want[c] {
			return fmt.Sprintf("%s: the call statement %s.%s() is written %d time(s) and recorded %d time(s)", where, c.Sel, c.Fn, want[c], have[c])
		}
	}
	dwant := map[Call]int{}
	for _, c := range fn.Defers {
		dwant[c]++
	}
	for c, n := range dwant {
		if have[c] > n {
			return fmt.Sprintf("%s: the deferred call %s.%s() is written %d time(s) and recorded %d time(s)", where, c.Sel, c.Fn, n, have[c])
		}
	}
	return ""
}

// judgeStructs checks the data structures of one file (or of a flattened project).
func judgeStructs(ds []core_domain.CodeDataStruct, files []GoFile, exactNames bool, extraAllowed map[string]bool) string {
	byName := map[string][]core_domain.CodeDataStruct{}
	var listed []string
	for _, d := range ds {
		byName[d.NodeName] = append(byName[d.NodeName], d)
		if !extraAllowed[d.NodeName] {
			listed = append(listed, d.NodeName)
		}
	}
	var declared []string
	for _, f := range files {
		for _, s := range f.Structs {
			declared = append(declared, s.Name)
		}
		for _, i := range f.Ifaces {
			declared = append(declared, i.Name)
		}
	}
	if msg := sameMultiset("data structures (structs and interfaces)", listed, declared); msg != "" {
		return msg
	}
	// a name may be declared in several files of a project (different directories): every declaration must have
	// its own entry, so the declarations of one name are paired one-to-one with the entries of that name
	judges := map[string][]func(d core_domain.CodeDataStruct) string{}
	var order []string
	add := func(name string, judge func(d core_domain.CodeDataStruct) string) {
		if judges[name] == nil {
			order = append(order, name)
		}
		judges[name] = append(judges[name], judge)
	}
	for _, f := range files {
		for _, s := range f.Structs {
			f, s := f, s
			add(s.Name, func(d core_domain.CodeDataStruct) string { return judgeStruct(d, f, s) })
		}
		for _, it := range f.Ifaces {
			it := it
			add(it.Name, func(d core_domain.CodeDataStruct) string { return judgeIface(d, it) })
		}
	}
	for _, name := range order {
		if msg := pairUp(len(judges[name]), len(byName[name]), func(i, j int) string { return judges[name][i](byName[name][j]) }); msg != "" {
			return msg
		}
	}
	return ""
}

// pairUp looks for a one-to-one pairing of n declarations with m entries (n == m, both small) such that
// judge(i, j) == "" for every pair; it returns "" or the first message met for the first declaration that cannot be paired.
func pairUp(n, m int, judge func(i, j int) string) string {
	used := make([]bool, m)
	firstMsg := make([]string, n)
	var try func(i int) bool
	try = func(i int) bool {
		if i == n {
			return true
		}
		for j := 0; j < m; j++ {
			if used[j] {
				continue
			}
			msg := judge(i, j)
			if msg != "" {
				if firstMsg[i] == "" {
					firstMsg[i] = msg
				}
				continue
			}
			used[j] = true
			if try(i + 1) {
				return true
			}
			used[j] = false
		}
		return false
	}
	if try(0) {
		return ""
	}
	for i := 0; i < n; i++ {
		if firstMsg[i] != "" {
			return firstMsg[i]
		}
	}
	return "the declarations of one name cannot be paired with the entries of that name"
}

func judgeStruct(d core_domain.CodeDataStruct, f GoFile, s GoStruct) string {
	if msg := sameSeq("fields of struct "+s.Name, propsOf(d.InOutProperties), propStrings(s.Fields)); msg != "" {
		return msg
	}
	var methods []string
	byMethod := map[string]GoFunc{}
	for _, fn := range f.Funcs {
		if fn.Recv == s.Name {
			methods = append(methods, fn.Name)
			byMethod[fn.Name] = fn
		}
	}
	var got []string
	for _, m := range d.Functions {
		got = append(got, m.Name)
	}
	if msg := sameMultiset("methods of struct "+s.Name, got, methods); msg != "" {
		return msg
	}
	for _, m := range d.Functions {
		if msg := judgeCalls("method "+s.Name+"."+m.Name, m.FunctionCalls, byMethod[m.Name]); msg != "" {
			return msg
		}
	}
	return ""
}

func judgeIface(d core_domain.CodeDataStruct, it GoIface) string {
	var got []string
	for _, p := range d.InOutProperties {
		got = append(got, p.ParamName)
	}
	if msg := sameMultiset("method set of interface "+it.Name, got, it.Methods); msg != "" {
		return msg
	}
	if len(d.Functions) != 0 {
		return fmt.Sprintf("interface %s is listed with methods of some struct: %d function(s)", it.Name, len(d.Functions))
	}
	return ""
}

func sameSeq(what string, got, want []string) string {
	if strings.Join(got, "\x00") != strings.Join(want, "\x00") || len(got) != len(want) {
		return fmt.Sprintf("%s: listed %v, declared %v", what, got, want)
	}
	return ""
}

// judgeContainer checks the model of one file.
func judgeContainer(c core_domain.CodeContainer, f GoFile, module string) string {
	if c.PackageName != f.Package {
		return fmt.Sprintf("package clause is %q, the model says %q", f.Package, c.PackageName)
	}
	var gotImp, wantImp []string
	for _, im := range c.Imports {
		gotImp = append(gotImp, im.Source+" as "+im.AsName)
	}
	for _, im := range f.Imports {
		wantImp = append(wantImp, expectedSource(im.Path, module)+" as "+im.Alias)
	}
	if msg := sameMultiset("imports (source as alias)", gotImp, wantImp); msg != "" {
		return msg
	}
	if msg := judgeStructs(c.DataStructures, []GoFile{f}, true, nil); msg != "" {
		return msg
	}
	// top-level functions: the members of type "method"
	var gotFn, wantFn []string
	for _, fn := range f.Funcs {
		if fn.Recv == "" {
			wantFn = append(wantFn, fn.Name)
		}
	}
	var nodes []core_domain.CodeFunction
	for _, m := range c.Members {
		for _, fn := range m.FunctionNodes {
			gotFn = append(gotFn, fn.Name)
			nodes = append(nodes, fn)
		}
	}
	if msg := sameMultiset("top-level functions", gotFn, wantFn); msg != "" {
		return msg
	}
	// a name declared several times (init): the declarations are paired one-to-one with the entries of that name
	wantsOf := map[string][]GoFunc{}
	nodesOf := map[string][]core_domain.CodeFunction{}
	for _, want := range f.Funcs {
		if want.Recv == "" {
			wantsOf[want.Name] = append(wantsOf[want.Name], want)
		}
	}
	for _, fn := range nodes {
		nodesOf[fn.Name] = append(nodesOf[fn.Name], fn)
	}
	for _, name := range sorted(wantFn) {
		ws, ns := wantsOf[name], nodesOf[name]
		if msg := pairUp(len(ws), len(ns), func(i, j int) string {
			if msg := sameSeq("parameters of function "+name, propsOf(ns[j].Parameters), propStrings(ws[i].Params)); msg != "" {
				return msg
			}
			return judgeCalls("function "+name, ns[j].FunctionCalls, ws[i])
		}); msg != "" {
			return msg
		}
	}
	return ""
}

// ---------------------------------------------------------------------------------------
// go_file

type GoCase struct {
	File    GoFile `json:"file"`
	ViaFile bool   `json:"viaFile"`
}

func genGoCase(t *rapid.T) GoCase {
	return GoCase{File: renderGo(drawGoSpec(t), "", "unit.go"), ViaFile: rapid.IntRange(0, 4).Draw(t, "viaFile") == 4}
}

func marshalOK(v interface{}) string {
	if _, err := json.Marshal(v); err != nil {
		return err.Error()
	}
	return ""
}

// runGoEntryPoints calls the three in-process entry points; judge is applied to each result.
func runGoEntryPoints(c GoCase, judge func(core_domain.CodeContainer) string) string {
	mustParseGo(c.File.Path, c.File.Code)
	var res *core_domain.CodeContainer
	ast_go.VerifResetAstGo()
	if p := call(func() { res = ast_go.NewCocagoParser().ProcessString(c.File.Code, c.File.Path, nil) }); p != "" {
		return "CocagoParser.ProcessString panicked on a file go/parser accepts: " + p
	}
	if msg := judge(*res); msg != "" {
		return "CocagoParser.ProcessString: " + msg
	}
	if e := marshalOK(res); e != "" {
		return "result of ProcessString cannot be marshalled: " + e
	}
	ast_go.VerifResetAstGo()
	var res2 core_domain.CodeContainer
	if p := call(func() { res2 = (&goapp.GoIdentApp{}).Analysis(c.File.Code, c.File.Path) }); p != "" {
		return "GoIdentApp.Analysis panicked on a file go/parser accepts: " + p
	}
	if msg := judge(res2); msg != "" {
		return "GoIdentApp.Analysis: " + msg
	}
	var members []core_domain.CodeMember
	if p := call(func() { members = (&goapp.GoIdentApp{}).IdentAnalysis(c.File.Code, c.File.Path) }); p != "" {
		return "GoIdentApp.IdentAnalysis panicked on a file go/parser accepts: " + p
	}
	_ = members
	if c.ViaFile {
		dir := cli.Scratch("c20go")
		defer os.RemoveAll(dir)
		cli.WriteTree(dir, map[string]string{c.File.Path: c.File.Code})
		ast_go.VerifResetAstGo()
		var res3 core_domain.CodeContainer
		if p := call(func() {
			res3 = ast_go.NewCocagoParser().ProcessFile(filepath.Join(dir, filepath.FromSlash(c.File.Path)))
		}); p != "" {
			return "CocagoParser.ProcessFile panicked on a file go/parser accepts: " + p
		}
		if msg := judge(res3); msg != "" {
			return "CocagoParser.ProcessFile: " + msg
		}
	}
	return ""
}

func goClasses(f GoFile) (classes []string, nonTrivial bool, canon string) {
	classes = append(classes, f.Features...)
	withMethods := 0
	methodsOf := map[string]int{}
	for _, fn := range f.Funcs {
		if fn.Recv != "" {
			methodsOf[fn.Recv]++
		}
	}
	for _, s := range f.Structs {
		if methodsOf[s.Name] > 0 {
			withMethods++
		}
	}
	for _, it := range f.Ifaces {
		if len(it.Methods) > 0 {
			withMethods++
		}
	}
	nonTrivial = len(f.Structs)+len(f.Ifaces) >= 2 && withMethods >= 2
	classes = append(classes, fmt.Sprintf("structs=%d", len(f.Structs)), fmt.Sprintf("interfaces=%d", len(f.Ifaces)))
	free := 0
	for _, fn := range f.Funcs {
		if fn.Recv == "" {
			free++
		}
	}
	if free > 0 {
		classes = append(classes, "top_level_functions")
	}
	if len(f.Imports) > 0 {
		classes = append(classes, "imports")
	}
	return classes, nonTrivial, ""
}

func checkGoCase(c GoCase) pbt.Verdict {
	if msg := runGoEntryPoints(c, func(res core_domain.CodeContainer) string { return judgeContainer(res, c.File, "") }); msg != "" {
		return pbt.Fail("%s\n--- %s\n%s", msg, c.File.Path, c.File.Code)
	}
	v := pbt.Verdict{}
	v.Classes, v.NonTrivial, _ = goClasses(c.File)
	if c.ViaFile {
		v.Classes = append(v.Classes, "via_ProcessFile")
	}
	return v
}
