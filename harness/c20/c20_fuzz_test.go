// Native fuzz targets of C20. The driver does not run them; long campaigns by hand:
//
//	cd /verif/harness && GOFLAGS=-mod=mod GOPROXY=off GOSUMDB=off GOTOOLCHAIN=local \
//	  go test -tags verif -run '^$' -fuzz '^FuzzGoProcessString$' -fuzztime 120s ./c20
//
// (VERIF_REPO=/some/worktree selects the seed directory; the code under test is whatever the
// module's replace directive points at.)
package c20

import (
	"encoding/json"
	"go/parser"
	"go/token"
	"os"
	"path/filepath"
	"testing"
	"verif/internal/pbt"

	"github.com/modernizing/coca/pkg/application/analysis/pyapp"
	"github.com/modernizing/coca/pkg/domain/core_domain"
	"github.com/modernizing/coca/pkg/infrastructure/ast/ast_go"
	"github.com/modernizing/coca/pkg/infrastructure/ast/ast_python"
)

func repoRoot() string {
	if r := os.Getenv("VERIF_REPO"); r != "" {
		return r
	}
	return "/repo"
}

// FuzzGoProcessString: for every text go/parser accepts, ProcessString returns without panicking and
// its result can be marshalled.
func FuzzGoProcessString(f *testing.F) {
	seeds, _ := filepath.Glob(filepath.Join(repoRoot(), "pkg/infrastructure/ast/ast_go/testdata/*/*.code"))
	for _, s := range seeds {
		if data, err := os.ReadFile(s); err == nil {
			f.Add(string(data))
		}
	}
	for _, s := range goAnySnippets {
		f.Add("package p\n\n" + s)
	}
	f.Add("package p\n\ntype A struct{ a, b int }\n\ntype B struct{}\n\nfunc (b *B) M() {}\n\nfunc (a A) N() { fmt.Println() }\n")
	f.Fuzz(func(t *testing.T, code string) {
		if _, err := parser.ParseFile(token.NewFileSet(), "fuzz.go", code, 0); err != nil {
			t.Skip()
		}
		ast_go.VerifResetAstGo()
		var res *core_domain.CodeContainer
		if p := call(func() { res = ast_go.NewCocagoParser().ProcessString(code, "fuzz.go", nil) }); p != "" {
			pbt.FuzzFail(t, "go_any", GoAnyCase{Path: "fuzz.go", Code: code}, "ProcessString panicked on a text go/parser accepts: "+p)
		}
		if _, err := json.Marshal(res); err != nil {
			t.Fatalf("result cannot be marshalled: %v", err)
		}
	})
}

// FuzzPyAnalysis: for every text the shipped Python parser accepts without a syntax error,
// PythonIdentApp.Analysis returns without panicking.
func FuzzPyAnalysis(f *testing.F) {
	seeds, _ := filepath.Glob(filepath.Join(repoRoot(), "pkg/application/analysis/pyapp/testdata/grammar/*.py"))
	for _, s := range seeds {
		if data, err := os.ReadFile(s); err == nil && len(data) < 4000 {
			f.Add(string(data))
		}
	}
	for _, s := range pyAnySnippets {
		f.Add(s)
	}
	f.Fuzz(func(t *testing.T, code string) {
		if len(code) > 4000 || pythonRejects(code) != "" {
			t.Skip()
		}
		ast_python.VerifResetAstPython()
		if p := call(func() { new(pyapp.PythonIdentApp).Analysis(code, "fuzz.py") }); p != "" {
			pbt.FuzzFail(t, "py_any", PyAnyCase{Code: code}, "Analysis panicked on a text the shipped parser accepts: "+p)
		}
	})
}
