// C20, sequences: one front-end object used for several files, and the same file analysed again.
//
//	go_seq   the files of a generated project -> one CocagoParser for all of them (ProcessString), then the first
//	         file once more; one GoIdentApp for all of them (Analysis). Every result is the model of its own file,
//	         and a result handed out earlier is not changed by a later analysis.
package c20

import (
	"fmt"

	"github.com/modernizing/coca/pkg/application/analysis/goapp"
	"github.com/modernizing/coca/pkg/domain/core_domain"
	"github.com/modernizing/coca/pkg/infrastructure/ast/ast_go"

	"verif/internal/pbt"
)

func checkGoSeq(p GoProject) pbt.Verdict {
	for _, f := range p.Files {
		mustParseGo(f.Path, f.Code)
	}
	fail := func(format string, args ...interface{}) pbt.Verdict {
		return pbt.Fail("%s\n%s", fmt.Sprintf(format, args...), p.render())
	}
	ast_go.VerifResetAstGo()
	order := make([]int, 0, len(p.Files)+1)
	for i := range p.Files {
		order = append(order, i)
	}
	order = append(order, 0) // the first file again, after the others
	files := append([]GoFile{}, p.Files...)
	if p.Again != nil {
		// then another text of the same length under the path of the first file, and the first file once more
		files = append(files, *p.Again)
		order = append(order, len(files)-1, 0)
	}
	p.Files = files
	parser := ast_go.NewCocagoParser()
	results := make([]*core_domain.CodeContainer, len(order))
	for k, fi := range order {
		f := p.Files[fi]
		if pn := call(func() { results[k] = parser.ProcessString(f.Code, f.Path, nil) }); pn != "" {
			return fail("analysis #%d with one CocagoParser (%s): ProcessString panicked: %s", k+1, f.Path, pn)
		}
		if msg := judgeContainer(*results[k], f, ""); msg != "" {
			return fail("analysis #%d with one CocagoParser (%s): %s", k+1, f.Path, msg)
		}
	}
	for k, fi := range order {
		if msg := judgeContainer(*results[k], p.Files[fi], ""); msg != "" {
			return fail("the result of analysis #%d with one CocagoParser (%s) changed while later files were analysed: %s", k+1, p.Files[fi].Path, msg)
		}
	}
	// one application object, as analysis.CommonAnalysis uses it
	app := new(goapp.GoIdentApp)
	kept := make([]core_domain.CodeContainer, len(order))
	for k, fi := range order {
		f := p.Files[fi]
		if pn := call(func() {
			app.SetExtensions(app.IdentAnalysis(f.Code, f.Path))
			kept[k] = app.Analysis(f.Code, f.Path)
		}); pn != "" {
			return fail("analysis #%d with one GoIdentApp (%s) panicked: %s", k+1, f.Path, pn)
		}
		if msg := judgeContainer(kept[k], f, ""); msg != "" {
			return fail("analysis #%d with one GoIdentApp (%s): %s", k+1, f.Path, msg)
		}
	}
	for k, fi := range order {
		if msg := judgeContainer(kept[k], p.Files[fi], ""); msg != "" {
			return fail("the result of analysis #%d with one GoIdentApp (%s) changed while later files were analysed: %s", k+1, p.Files[fi].Path, msg)
		}
	}
	if p.Again != nil {
		p.Files = files[:len(files)-1] // the verdict counts the project's own files
	}
	v := projectVerdict(p)
	v.Classes = append(v.Classes, "one_parser_for_all_files")
	return v
}
