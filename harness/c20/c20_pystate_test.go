// The Go port of the Python lexer keeps its token queue and indentation stack in package-level
// variables of languages/python (python_base_lexer.go: buffer, indents), so the result of a parse
// depends on what the process has parsed before. Every case starts from the state of a fresh
// process (which is also what a replay sees) through the verif reset hook of that package.
package c20

import (
	pyparser "github.com/modernizing/coca/languages/python"
)

// resetPythonLexer puts the lexer's package-level state back to what init() of languages/python sets.
func resetPythonLexer() {
	pyparser.VerifResetPython()
}
