// The Go port of the Python lexer keeps its token queue and indentation stack in package-level
// variables of languages/python (python_base_lexer.go: buffer, indents), so the result of a parse
// depends on what the process has parsed before. The generated reset hooks cover /repo/pkg only.
// Until a hook for languages/python exists, the two variables are reached through go:linkname so
// that every case starts from the state of a fresh process (which is also what a replay sees).
package c20

import (
	_ "unsafe"

	"github.com/antlr/antlr4/runtime/Go/antlr/v4"
	_ "github.com/modernizing/coca/languages/python"
	"github.com/modernizing/coca/pkg/infrastructure/container"
)

//go:linkname pyLexerBuffer github.com/modernizing/coca/languages/python.buffer
var pyLexerBuffer []antlr.Token

//go:linkname pyLexerIndents github.com/modernizing/coca/languages/python.indents
var pyLexerIndents *container.Stack

// resetPythonLexer puts the lexer's package-level state back to what init() of languages/python sets.
func resetPythonLexer() {
	pyLexerBuffer = make([]antlr.Token, 32)
	pyLexerIndents = container.NewStack()
}
