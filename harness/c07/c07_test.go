// C07 — a file's analysis result is independent of other files, order and repetition.
// The reset hooks are used only to emulate the start of a fresh process at the beginning of
// a case and to compute the per-file reference; never inside a history.
package c07

import (
	"encoding/json"
	"fmt"
	"os"
	"os/exec"
	"path/filepath"
	"sort"
	"strings"
	"testing"

	"github.com/modernizing/coca/pkg/application/analysis/javaapp"
	"github.com/modernizing/coca/pkg/application/api"
	"github.com/modernizing/coca/pkg/application/bs"
	"github.com/modernizing/coca/pkg/application/call"
	"github.com/modernizing/coca/pkg/application/rcall"
	"github.com/modernizing/coca/pkg/domain/api_domain"
	"github.com/modernizing/coca/pkg/domain/core_domain"
	"github.com/modernizing/coca/pkg/infrastructure/ast/ast_java"
	"github.com/modernizing/coca/pkg/infrastructure/ast/ast_java/ast_api_java"
	"github.com/modernizing/coca/pkg/infrastructure/ast/ast_java/java_identify"
	"github.com/modernizing/coca/pkg/infrastructure/ast/bs_java"
	"pgregory.net/rapid"

	"verif/internal/cli"
	"verif/internal/dot"
	"verif/internal/jgen"
	"verif/internal/mgen"
	"verif/internal/pbt"
)

type Op struct {
	Pass string `json:"pass"` // identifier | full | bs | api
	List []int  `json:"list"` // file indices; order is the processing order for identifier/full
}

type Case struct {
	Files []jgen.File `json:"files"`
	Class []string    `json:"class"` // pkg.Class per file
	Ops   []Op        `json:"ops"`
	Fresh bool        `json:"fresh"` // also compute the reference in fresh sub-processes and compare
	// IdentSubset: the identifier set is computed from the files IdentFrom only (a strict subset,
	// possibly empty) instead of from all files; it is held fixed all the same
	IdentSubset bool  `json:"identSubset,omitempty"`
	IdentFrom   []int `json:"identFrom,omitempty"`
	// hand-built shapes (c07_shapes_test.go): the kind of each file ("" = a jgen unit, a controller
	// or an enum file, told apart by name), the further types a file declares (nested ones, a second
	// top-level one; pkg.Name), the shapes the generator chose (labels only)
	Kind []string   `json:"kind,omitempty"`
	More [][]string `json:"more,omitempty"`
	Feat []string   `json:"feat,omitempty"`
}

// owns reports whether the model entry or API entry named full (pkg.Type) belongs to file i.
func (c Case) owns(i int, full string) bool {
	if full == c.Class[i] {
		return true
	}
	if i < len(c.More) {
		for _, m := range c.More[i] {
			if m == full {
				return true
			}
		}
	}
	return false
}

// kindOf names the shape of file i.
func (c Case) kindOf(i int) string {
	if i < len(c.Kind) && c.Kind[i] != "" {
		return c.Kind[i]
	}
	base := filepath.Base(c.Files[i].Path)
	switch {
	case strings.HasPrefix(base, "Ctl"):
		return "ctl"
	case strings.HasPrefix(base, "Level"):
		return "enum"
	case strings.HasPrefix(base, "Uses"):
		return "enumuser"
	}
	return "unit"
}

func controller(t *rapid.T, idx int, pkg string) (jgen.File, string) {
	name := fmt.Sprintf("Ctl%d", idx)
	var b strings.Builder
	if pkg != "" {
		fmt.Fprintf(&b, "package %s;\n\n", pkg)
	}
	b.WriteString("import org.springframework.web.bind.annotation.*;\n\n")
	b.WriteString(rapid.SampledFrom([]string{"@RestController\n", "@Controller\n"}).Draw(t, "ctlAnn"))
	if rapid.Bool().Draw(t, "hasBase") {
		base := rapid.SampledFrom([]string{"/alpha", "/beta/v1", "/g"}).Draw(t, "base")
		if rapid.Bool().Draw(t, "baseValueForm") {
			fmt.Fprintf(&b, "@RequestMapping(value = \"%s\")\n", base)
		} else {
			fmt.Fprintf(&b, "@RequestMapping(\"%s\")\n", base)
		}
	}
	fmt.Fprintf(&b, "public class %s {\n", name)
	n := rapid.IntRange(1, 3).Draw(t, "nHandlers")
	for k := 0; k < n; k++ {
		verb := rapid.SampledFrom([]string{"Get", "Post", "Put", "Delete"}).Draw(t, "verb")
		fmt.Fprintf(&b, "    @%sMapping(\"/h%d\")\n", verb, k)
		param := ""
		switch rapid.IntRange(0, 2).Draw(t, "paramKind") {
		case 1:
			param = fmt.Sprintf("@RequestBody Dto%d repo", rapid.IntRange(0, 2).Draw(t, "dto"))
		case 2:
			param = "String item"
		}
		fmt.Fprintf(&b, "    public String handle%d(%s) {\n        return \"x\";\n    }\n\n", k, param)
	}
	b.WriteString("}\n")
	path := name + ".java"
	if pkg != "" {
		path = strings.ReplaceAll(pkg, ".", "/") + "/" + path
	}
	return jgen.File{Path: path, Text: b.String()}, pkg + "." + name
}

var reusedNames = []string{"repo", "item", "value", "it"}

// enumFile writes a top-level enum: a type of its package like any class, which the identifier
// pass does not list.
func enumFile(t *rapid.T, idx int, pkg string) (jgen.File, string, []string) {
	name := fmt.Sprintf("Level%d", idx)
	consts := []string{"LOW", "HIGH", "MID"}[:rapid.IntRange(1, 3).Draw(t, "nConsts")]
	var b strings.Builder
	fmt.Fprintf(&b, "package %s;\n\n", pkg)
	rich := rapid.IntRange(0, 3).Draw(t, "enumForm")
	impl := ""
	if rapid.IntRange(0, 3).Draw(t, "enumImplements") == 3 {
		impl = " implements Runnable"
	}
	fmt.Fprintf(&b, "public enum %s%s {\n", name, impl)
	switch rich {
	case 0: // constants only
		end := ""
		if impl != "" {
			end = ";" // members follow
		}
		fmt.Fprintf(&b, "    %s%s\n", strings.Join(consts, ", "), end)
	case 1: // constants and a method
		fmt.Fprintf(&b, "    %s;\n\n", strings.Join(consts, ", "))
		v := rapid.SampledFrom(reusedNames).Draw(t, "enumVar")
		fmt.Fprintf(&b, "    public boolean above(%s %s) {\n        return %s.ordinal() < ordinal();\n    }\n", name, v, v)
	case 3: // a constant with a class body, a method that calls its inherited version
		cs := append([]string{consts[0] + " {\n        @Override\n        public String label() {\n            return \"first\";\n        }\n    }"}, consts[1:]...)
		fmt.Fprintf(&b, "    %s;\n\n    public String label() {\n        return super.toString();\n    }\n", strings.Join(cs, ", "))
	default: // constants with arguments, a field, a constructor and an accessor
		var cs []string
		for k, c := range consts {
			cs = append(cs, fmt.Sprintf("%s(%d)", c, k+1))
		}
		v := rapid.SampledFrom(reusedNames).Draw(t, "enumVar")
		fmt.Fprintf(&b, "    %s;\n\n    private final int %s;\n\n    %s(int %s) {\n        this.%s = %s;\n    }\n\n    public int weight() {\n        return %s;\n    }\n", strings.Join(cs, ", "), v, name, v, v, v, v)
	}
	if impl != "" {
		b.WriteString("\n    public void run() {\n        name();\n    }\n")
	}
	b.WriteString("}\n")
	dir := strings.ReplaceAll(pkg, ".", "/")
	return jgen.File{Path: dir + "/" + name + ".java", Text: b.String()}, pkg + "." + name, consts
}

// enumUser writes a class that uses the enum: without an import when it lives in the enum's
// package, with a single-type import otherwise. Its variables carry the reused names.
func enumUser(t *rapid.T, idx int, pkg, enumPkg, enum string, consts []string) (jgen.File, string) {
	name := fmt.Sprintf("Uses%d", idx)
	var b strings.Builder
	fmt.Fprintf(&b, "package %s;\n\n", pkg)
	if pkg != enumPkg {
		fmt.Fprintf(&b, "import %s.%s;\n\n", enumPkg, enum)
	}
	fmt.Fprintf(&b, "public class %s {\n", name)
	field := ""
	if rapid.IntRange(0, 2).Draw(t, "userField") > 0 {
		field = rapid.SampledFrom(reusedNames).Draw(t, "userFieldName")
		init := ""
		if rapid.Bool().Draw(t, "userFieldInit") {
			init = " = " + enum + "." + rapid.SampledFrom(consts).Draw(t, "userFieldConst")
		}
		fmt.Fprintf(&b, "    private %s %s%s;\n\n", enum, field, init)
	}
	other := func(label string, taken ...string) string {
		var free []string
		for _, n := range reusedNames {
			ok := true
			for _, x := range taken {
				if x == n {
					ok = false
				}
			}
			if ok {
				free = append(free, n)
			}
		}
		return rapid.SampledFrom(free).Draw(t, label)
	}
	n := rapid.IntRange(1, 3).Draw(t, "nUserMethods")
	for k := 0; k < n; k++ {
		switch rapid.IntRange(0, 3).Draw(t, "userMethod") {
		case 0: // static call on the enum, call on a local of the enum type
			pv := other("userParam", field)
			lv := other("userLocal", field, pv)
			fmt.Fprintf(&b, "    public String pick%d(String %s) {\n        %s %s = %s.valueOf(%s);\n        %s.ordinal();\n        return %s.name();\n    }\n\n", k, pv, enum, lv, enum, pv, lv, lv)
		case 1: // parameter of the enum type, switch over it
			pv := other("userParam", field)
			fmt.Fprintf(&b, "    void use%d(%s %s) {\n        %s.compareTo(%s.%s);\n        switch (%s) {\n        case %s:\n            %s.name();\n            break;\n        default:\n            break;\n        }\n    }\n\n", k, enum, pv, pv, enum, consts[0], pv, consts[0], pv)
		case 2: // call on the field, for-each over values()
			lv := other("userLocal", field)
			recv := lv
			if field != "" {
				recv = field
			}
			fmt.Fprintf(&b, "    int count%d() {\n        int n = 0;\n        for (%s %s : %s.values()) {\n            n = n + %s.ordinal();\n        }\n        return n;\n    }\n\n", k, enum, lv, enum, recv)
		default: // the same names with other types: a decoy for a leaked table
			pv := other("userParam", field)
			lv := other("userLocal", field, pv)
			fmt.Fprintf(&b, "    String plain%d(String %s) {\n        StringBuilder %s = new StringBuilder();\n        %s.append(%s.trim());\n        return %s.toString();\n    }\n\n", k, pv, lv, lv, pv, lv)
		}
	}
	b.WriteString("}\n")
	dir := strings.ReplaceAll(pkg, ".", "/")
	return jgen.File{Path: dir + "/" + name + ".java", Text: b.String()}, pkg + "." + name
}

func gen(t *rapid.T) Case {
	o := jgen.Opts{Bodies: true, NameReuse: true, Interfaces: true, Wide: true, RichDecl: true, MaxUnits: 4, MaxMethods: 3, ExtraImps: rapid.Bool().Draw(t, "extraImps"), DupNames: rapid.Bool().Draw(t, "dupNames")}
	var feat []string
	if rapid.Bool().Draw(t, "moreUnitForms") {
		// further forms of the jgen units, each behind its own draw
		for _, f := range []struct {
			name string
			on   *bool
		}{
			{"anonymous_class_arguments", &o.Anon}, {"names_reused_inside_a_unit", &o.ScopedReuse}, {"unqualified_calls_of_inherited_or_static_imported_methods", &o.UnqualifiedForeign},
			{"super_calls_of_declared_methods", &o.SuperCallsDeclared}, {"wildcard_imports_of_project_packages", &o.WildcardProjectImports}, {"method_names_shared_between_classes", &o.SharedMethodNames},
			{"further_loop_forms", &o.Loops},
		} {
			if rapid.IntRange(0, 2).Draw(t, "unitForm_"+f.name) == 2 {
				*f.on = true
				feat = append(feat, "units_with_"+f.name)
			}
		}
	}
	p := jgen.GenProject(t, o)
	var c Case
	for i, u := range p.Units {
		c.Files = append(c.Files, p.Files[i])
		c.Class = append(c.Class, u.FullName())
	}
	sh := newShaper(t, &c, p)
	for _, f := range feat {
		sh.feat[f] = true
	}
	nc := rapid.IntRange(0, 3).Draw(t, "nControllers")
	type ctlID struct {
		pkg string
		idx int
	}
	var ctls []ctlID
	for k := 0; k < nc; k++ {
		id := ctlID{pkg: rapid.SampledFrom([]string{"com.acme", "com.acme.web.api"}).Draw(t, "ctlPkg"), idx: k}
		// 0-2: as ever; 3: the simple name of an earlier controller, in another package; 4: in the default package; 5: other spellings
		variant := rapid.IntRange(0, 5).Draw(t, "ctlVariant")
		if variant == 4 {
			id.pkg = ""
		}
		if variant == 3 && k > 0 {
			twin := ctlID{pkg: id.pkg, idx: ctls[rapid.IntRange(0, k-1).Draw(t, "ctlTwinOf")].idx}
			free := true
			for _, x := range ctls {
				if x == twin {
					free = false
				}
			}
			if free {
				id = twin
				sh.feat["controllers_of_one_simple_name_in_two_packages"] = true
			}
		}
		ctls = append(ctls, id)
		if variant == 5 {
			sh.richController(fmt.Sprintf("Ctl%d", id.idx), id.pkg)
			continue
		}
		f, cls := controller(t, id.idx, id.pkg)
		if id.pkg == "" {
			sh.feat["file_in_default_package"] = true
		}
		c.Files = append(c.Files, f)
		c.Class = append(c.Class, cls)
	}
	// enums (types the identifier pass does not list) and classes that use them
	nEnums := rapid.IntRange(0, 2).Draw(t, "nEnums")
	nUsers := 0
	firstEnumPkg := ""
	for k := 0; k < nEnums; k++ {
		epkg := rapid.SampledFrom([]string{"com.acme", "com.acme.core", "org.demo"}).Draw(t, "enumPkg")
		idx := k
		if k == 0 {
			firstEnumPkg = epkg
		} else if epkg != firstEnumPkg && rapid.IntRange(0, 2).Draw(t, "enumTwin") == 2 {
			idx = 0 // the first enum's simple name, in another package
			sh.feat["enums_of_one_simple_name_in_two_packages"] = true
		}
		f, cls, consts := enumFile(t, idx, epkg)
		c.Files = append(c.Files, f)
		c.Class = append(c.Class, cls)
		for j, nu := 0, rapid.IntRange(0, 2).Draw(t, "nEnumUsers"); j < nu; j++ {
			upkg := epkg // the plain variant: same package, no import
			if rapid.IntRange(0, 2).Draw(t, "userOtherPkg") == 2 {
				upkg = rapid.SampledFrom([]string{"app.client", "com.acme.web.api"}).Draw(t, "userPkg")
			}
			uf, ucls := enumUser(t, nUsers, upkg, epkg, cls[len(epkg)+1:], consts)
			nUsers++
			c.Files = append(c.Files, uf)
			c.Class = append(c.Class, ucls)
		}
	}
	sh.extraShapes()
	if len(c.Files) < 2 {
		f, cls := controller(t, 9, "com.acme")
		c.Files = append(c.Files, f)
		c.Class = append(c.Class, cls)
	}
	all := make([]int, len(c.Files))
	for i := range all {
		all[i] = i
	}
	nOps := rapid.IntRange(2, 8).Draw(t, "nOps")
	for k := 0; k < nOps; k++ {
		op := Op{Pass: rapid.SampledFrom([]string{"identifier", "full", "full", "bs", "api", "api"}).Draw(t, "pass")}
		perm := rapid.Permutation(all).Draw(t, "perm")
		n := rapid.IntRange(1, len(perm)).Draw(t, "listLen")
		op.List = append(op.List, perm[:n]...)
		c.Ops = append(c.Ops, op)
	}
	c.Fresh = rapid.IntRange(0, 9).Draw(t, "fresh") == 0
	// the identifier set: computed from all files (plain) or from a strict subset of them; the
	// files it does not know are analysed all the same, before or after the others
	if rapid.IntRange(0, 2).Draw(t, "identSubset") == 2 {
		c.IdentSubset = true
		perm := rapid.Permutation(all).Draw(t, "identPerm")
		n := rapid.IntRange(0, len(perm)-1).Draw(t, "identLen")
		c.IdentFrom = append([]int{}, perm[:n]...)
		sort.Ints(c.IdentFrom)
	}
	sh.finish()
	return c
}

func resetAll() {
	ast_java.VerifResetAstJava()
	java_identify.VerifResetJavaIdentify()
	ast_api_java.VerifResetAstApiJava()
	bs_java.VerifResetBsJava()
	bs.VerifResetBs()
	api.VerifResetApi()
	call.VerifResetCall()
	rcall.VerifResetRcall()
}

type world struct {
	c        Case
	root     string
	allDir   string
	dirs     []string // every directory that holds copies of the files (prefixes to strip)
	ident    []core_domain.CodeDataStruct
	identMap map[string]core_domain.CodeDataStruct
	diMap    map[string]string
	deps     []core_domain.CodeDataStruct
}

func (w *world) mkdir(name string, list []int) string {
	dir := filepath.Join(w.root, name)
	files := map[string]string{}
	for _, i := range list {
		files[w.c.Files[i].Path] = w.c.Files[i].Text
	}
	cli.WriteTree(dir, files)
	w.dirs = append(w.dirs, dir)
	return dir
}

func (w *world) strip(s string) string {
	for _, d := range w.dirs {
		s = strings.ReplaceAll(s, d+string(filepath.Separator), "")
	}
	return s
}

func canon(v interface{}) string {
	raw, err := json.Marshal(v)
	if err != nil {
		return "<unserialisable: " + err.Error() + ">"
	}
	return string(raw)
}

// run executes one pass over the listed files and returns the per-file results.
func (w *world) run(op Op, tag string) (map[int]string, string) {
	out := map[int]string{}
	inList := map[int]bool{}
	for _, i := range op.List {
		inList[i] = true
	}
	var paths []string
	for _, i := range op.List {
		paths = append(paths, filepath.Join(w.allDir, filepath.FromSlash(w.c.Files[i].Path)))
	}
	var panicked string
	switch op.Pass {
	case "identifier", "full":
		var model []core_domain.CodeDataStruct
		panicked = pbt.Call(func() {
			if op.Pass == "identifier" {
				app := javaapp.NewJavaIdentifierApp()
				model = app.AnalysisFiles(paths)
			} else {
				app := javaapp.NewJavaFullApp()
				model = app.AnalysisFiles(w.ident, paths)
			}
		})
		for _, i := range op.List {
			var mine []core_domain.CodeDataStruct
			for _, ds := range model {
				if w.c.owns(i, ds.Package+"."+ds.NodeName) {
					fs := append([]core_domain.CodeFunction(nil), ds.Functions...)
					sort.SliceStable(fs, func(a, b int) bool {
						if fs[a].Position.StartLine != fs[b].Position.StartLine {
							return fs[a].Position.StartLine < fs[b].Position.StartLine
						}
						if fs[a].Name != fs[b].Name {
							return fs[a].Name < fs[b].Name
						}
						return canon(fs[a]) < canon(fs[b]) // unnamed entries (field initialisers) share line 0
					})
					ds.Functions = fs
					mine = append(mine, ds)
				}
			}
			out[i] = w.strip(canon(mine))
		}
	case "bs":
		dir := w.mkdir(tag, op.List)
		panicked = pbt.Call(func() {
			app := bs.NewBadSmellApp()
			infos := app.AnalysisPath(dir)
			smells := app.IdentifyBadSmell(infos, nil)
			for _, i := range op.List {
				rel := filepath.Join(dir, filepath.FromSlash(w.c.Files[i].Path))
				var mine []interface{}
				for _, n := range *infos {
					if n.FilePath == rel {
						mine = append(mine, n)
					}
				}
				var ms []string
				for _, s := range smells {
					if s.File == rel && s.Bs != "graphConnectedCall" {
						ms = append(ms, canon(s))
					}
				}
				sort.Strings(ms)
				out[i] = w.strip(canon(mine) + " smells=" + strings.Join(ms, ","))
			}
		})
	case "api":
		dir := w.mkdir(tag, op.List)
		panicked = pbt.Call(func() {
			app := new(api.JavaApiApp)
			apis := app.AnalysisPath(dir, w.deps, w.identMap, w.diMap)
			for _, i := range op.List {
				var mine []api_domain.RestAPI
				for _, a := range apis {
					if w.c.owns(i, a.PackageName+"."+a.ClassName) {
						mine = append(mine, a)
					}
				}
				out[i] = canon(mine)
			}
		})
	}
	return out, panicked
}

func check(c Case) pbt.Verdict {
	for i, f := range c.Files {
		if c.kindOf(i) != "unit" {
			if errs := jgen.SyntaxErrors(f.Text); len(errs) > 0 {
				return pbt.Verdict{Skip: true, Classes: []string{"rejected_by_parser:" + c.Class[i]}}
			}
		}
	}
	root := cli.Scratch("c07-")
	defer os.RemoveAll(root)
	w := &world{c: c, root: root}
	all := make([]int, len(c.Files))
	for i := range all {
		all[i] = i
	}
	w.allDir = w.mkdir("all", all)
	// the project-wide identifier set and model, computed once from a clean state and held fixed
	resetAll()
	if p := pbt.Call(func() {
		iapp := javaapp.NewJavaIdentifierApp()
		if c.IdentSubset {
			var paths []string
			for _, i := range c.IdentFrom {
				paths = append(paths, filepath.Join(w.allDir, filepath.FromSlash(c.Files[i].Path)))
			}
			w.ident = iapp.AnalysisFiles(paths)
		} else {
			w.ident = iapp.AnalysisPath(w.allDir)
		}
	}); p != "" {
		return pbt.Fail("identifier pass panicked: %s", p)
	}
	w.identMap = core_domain.BuildIdentifierMap(w.ident)
	w.diMap = core_domain.BuildDIMap(w.ident, w.identMap)
	resetAll()
	if p := pbt.Call(func() {
		app := javaapp.NewJavaFullApp()
		w.deps = app.AnalysisPath(w.allDir, w.ident)
	}); p != "" {
		return pbt.Fail("full pass panicked: %s", p)
	}
	// reference: every file alone, from a clean state
	ref := map[string]map[int]string{}
	for _, pass := range []string{"identifier", "full", "bs", "api"} {
		ref[pass] = map[int]string{}
		for i := range c.Files {
			resetAll()
			res, p := w.run(Op{Pass: pass, List: []int{i}}, fmt.Sprintf("ref-%s-%d", pass, i))
			if p != "" {
				return pbt.Fail("%s pass on %s alone panicked: %s", pass, c.Files[i].Path, p)
			}
			ref[pass][i] = res[i]
		}
	}
	if c.Fresh {
		if msg := compareWithFreshProcesses(w, ref); msg != "" {
			return pbt.Fail("%s", msg)
		}
	}
	// the history, in one process, no resets
	resetAll()
	var history []string
	multi := false
	for k, op := range c.Ops {
		var names []string
		for _, i := range op.List {
			names = append(names, filepath.Base(c.Files[i].Path))
		}
		history = append(history, op.Pass+names2(names))
		res, p := w.run(op, fmt.Sprintf("op-%d", k))
		if p != "" {
			return pbt.Fail("history %v: %s pass panicked: %s", history, op.Pass, p)
		}
		if len(op.List) >= 2 || k > 0 {
			multi = true
		}
		for _, i := range op.List {
			if res[i] != ref[op.Pass][i] {
				return pbt.Fail("history %v: the %s result for %s differs from the result for that file analysed alone in a fresh state\n%s", history, op.Pass, c.Files[i].Path, firstDiff(ref[op.Pass][i], res[i]))
			}
		}
	}
	v := pbt.Verdict{NonTrivial: multi}
	for _, op := range c.Ops {
		v.Classes = append(v.Classes, "pass_"+op.Pass)
	}
	if c.Fresh {
		v.Classes = append(v.Classes, "fresh_process_crosscheck")
	}
	hasCtl := false
	for _, cl := range c.Class {
		if strings.Contains(cl, ".Ctl") {
			hasCtl = true
		}
	}
	if hasCtl {
		v.Classes = append(v.Classes, "has_controller")
	}
	v.Classes = append(v.Classes, domainLabels(c)...)
	v.Classes = append(v.Classes, shapeLabels(c)...)
	return v
}

// walkLess orders two relative paths the way a directory walk visits them (lexical, per component).
func walkLess(a, b string) bool {
	x, y := strings.Split(a, "/"), strings.Split(b, "/")
	for k := 0; k < len(x) && k < len(y); k++ {
		if x[k] != y[k] {
			return x[k] < y[k]
		}
	}
	return len(x) < len(y)
}

// processed lists the files of an operation in the order the pass works through them: the list
// order for the identifier and full passes, the order of the directory walk for the others.
func (c Case) processed(op Op) []int {
	list := append([]int(nil), op.List...)
	if op.Pass == "bs" || op.Pass == "api" {
		sort.Slice(list, func(a, b int) bool { return walkLess(c.Files[list[a]].Path, c.Files[list[b]].Path) })
	}
	return list
}

// shapeLabels describes the hand-built shapes of the case and where the histories put them
// (labels only): which shapes were drawn, and for every pass which kind of file was worked on
// right after which other kind in the same process (the operations of one pass share that pass's
// package-level state, whatever other passes run in between).
func shapeLabels(c Case) []string {
	set := map[string]bool{}
	for _, f := range c.Feat {
		set["shape_"+f] = true
	}
	fresh := map[string]bool{"nest": true, "iface": true, "base": true, "sub": true, "job": true, "barectl": true, "svc": true, "impl": true, "proxy": true}
	for i := range c.Files {
		if k := c.kindOf(i); fresh[k] {
			set["has_"+k+"_file"] = true
		}
	}
	last := map[string]string{}
	imported := map[string]bool{} // service interfaces imported by a file the API pass has worked on
	for _, op := range c.Ops {
		for _, i := range c.processed(op) {
			k := c.kindOf(i)
			if op.Pass == "api" {
				for j := range c.Files {
					if c.kindOf(j) != "svc" {
						continue
					}
					simple := c.Class[j][strings.LastIndex(c.Class[j], ".")+1:]
					switch {
					case strings.Contains(c.Files[i].Text, "import "+c.Class[j]+";"):
						imported[c.Class[j]] = true
					case k == "impl" && imported[c.Class[j]] && strings.Contains(c.Files[i].Text, " implements "+simple+" "):
						set["api_pass_implementation_without_import_after_file_that_imports_the_interface"] = true
					}
				}
			}
			prev, seen := last[op.Pass]
			last[op.Pass] = k
			if !seen {
				continue
			}
			switch {
			case op.Pass == "api" && k == "barectl" && prev == "ctl":
				set["api_pass_class_without_stereotype_right_after_controller"] = true
			case op.Pass == "api" && k == "proxy" && prev == "impl":
				set["api_pass_proxy_right_after_implementation"] = true
			case op.Pass == "api" && k == "impl" && (prev == "proxy" || prev == "impl"):
				set["api_pass_implementation_right_after_file_that_imports_the_interface"] = true
			case op.Pass != "api" && fresh[k] && prev == k:
				set["hand_built_file_right_after_another_of_its_kind"] = true
			case op.Pass != "api" && fresh[k]:
				set["hand_built_file_right_after_file_of_other_kind"] = true
			case op.Pass != "api" && fresh[prev]:
				set["other_file_right_after_hand_built_file"] = true
			}
		}
	}
	var out []string
	for k := range set {
		out = append(out, k)
	}
	sort.Strings(out)
	return out
}

// domainLabels describes the widened part of the case (labels only).
func domainLabels(c Case) []string {
	set := map[string]bool{}
	known := map[int]bool{}
	switch {
	case !c.IdentSubset:
		set["ident_from_all_files"] = true
		for i := range c.Files {
			known[i] = true
		}
	case len(c.IdentFrom) == 0:
		set["ident_from_no_file"] = true
	default:
		set["ident_from_strict_subset"] = true
		for _, i := range c.IdentFrom {
			known[i] = true
		}
	}
	pkgOf := func(i int) string { return c.Class[i][:strings.LastIndex(c.Class[i], ".")] }
	simple := func(i int) string { return c.Class[i][strings.LastIndex(c.Class[i], ".")+1:] }
	isEnum := func(i int) bool { return strings.HasPrefix(simple(i), "Level") }
	// does file j mention the type declared by file i (as a word)?
	mentions := func(j, i int) bool {
		for _, w := range strings.FieldsFunc(c.Files[j].Text, func(r rune) bool {
			return !(r == '_' || r == '$' || r >= '0' && r <= '9' || r >= 'a' && r <= 'z' || r >= 'A' && r <= 'Z' || r > 127)
		}) {
			if w == simple(i) {
				return true
			}
		}
		return false
	}
	for i := range c.Files {
		if isEnum(i) {
			set["has_enum"] = true
		}
		if strings.HasPrefix(simple(i), "Uses") {
			if strings.Contains(c.Files[i].Text, "\nimport ") {
				set["enum_user_in_other_package_with_import"] = true
			} else {
				set["enum_user_in_enum_package_without_import"] = true
			}
		}
	}
	for _, op := range c.Ops {
		if op.Pass != "full" {
			continue
		}
		for a, i := range op.List {
			for b, j := range op.List {
				if i == j || !mentions(j, i) {
					continue
				}
				// file j refers to the type of file i, which the identifier set does not list
				if !known[i] || isEnum(i) {
					where := "after"
					if a > b {
						where = "before"
					}
					kind := "class_unknown_to_ident"
					if isEnum(i) {
						kind = "enum"
					}
					rel := "other_package"
					if pkgOf(i) == pkgOf(j) {
						rel = "same_package"
					}
					set["full_pass_user_"+where+"_declaring_file_of_"+kind+"_"+rel] = true
				}
			}
		}
		for _, i := range op.List {
			if !known[i] {
				set["full_pass_over_file_unknown_to_ident"] = true
			}
		}
	}
	var out []string
	for k := range set {
		out = append(out, k)
	}
	sort.Strings(out)
	return out
}

func names2(n []string) string { return "(" + strings.Join(n, ",") + ")" }

func firstDiff(a, b string) string {
	i := 0
	for i < len(a) && i < len(b) && a[i] == b[i] {
		i++
	}
	lo := i - 200
	if lo < 0 {
		lo = 0
	}
	cut := func(s string) string {
		hi := i + 200
		if hi > len(s) {
			hi = len(s)
		}
		if lo > len(s) {
			return ""
		}
		return s[lo:hi]
	}
	return fmt.Sprintf("alone:   …%s…\nhistory: …%s…", cut(a), cut(b))
}

// ---- fresh sub-process cross-check of the reference ------------------------------------

type childJob struct {
	Case  Case   `json:"case"`
	File  int    `json:"file"`
	Ident string `json:"ident"` // JSON of the identifier set
	Deps  string `json:"deps"`
}

func compareWithFreshProcesses(w *world, ref map[string]map[int]string) string {
	for i := range w.c.Files {
		job := childJob{Case: w.c, File: i, Ident: canon(w.ident), Deps: canon(w.deps)}
		jobFile := filepath.Join(w.root, fmt.Sprintf("job-%d.json", i))
		outFile := filepath.Join(w.root, fmt.Sprintf("job-%d.out.json", i))
		raw, _ := json.Marshal(job)
		if err := os.WriteFile(jobFile, raw, 0644); err != nil {
			panic(err)
		}
		cmd := exec.Command(os.Args[0], "-test.run", "^TestChild$")
		cmd.Env = append(os.Environ(), "VERIF_C07_JOB="+jobFile, "VERIF_C07_OUT="+outFile, "VERIF_JOURNAL=", "VERIF_EV_OUT=", "VERIF_FAIL_OUT=")
		if out, err := cmd.CombinedOutput(); err != nil {
			panic(fmt.Sprintf("child process failed: %v\n%s", err, out))
		}
		data, err := os.ReadFile(outFile)
		if err != nil {
			panic(err)
		}
		var got map[string]string
		if err := json.Unmarshal(data, &got); err != nil {
			panic(err)
		}
		for pass, want := range got {
			if ref[pass][i] != want {
				return fmt.Sprintf("%s pass on %s alone: the result after the reset hooks differs from the result in a fresh process (hooks incomplete, or state not covered)\n%s", pass, w.c.Files[i].Path, firstDiff(want, ref[pass][i]))
			}
		}
	}
	return ""
}

func TestChild(t *testing.T) {
	jobFile := os.Getenv("VERIF_C07_JOB")
	if jobFile == "" {
		t.Skip()
	}
	raw, err := os.ReadFile(jobFile)
	if err != nil {
		t.Fatal(err)
	}
	var job childJob
	if err := json.Unmarshal(raw, &job); err != nil {
		t.Fatal(err)
	}
	root := cli.Scratch("c07child-")
	defer os.RemoveAll(root)
	w := &world{c: job.Case, root: root}
	all := make([]int, len(job.Case.Files))
	for i := range all {
		all[i] = i
	}
	w.allDir = w.mkdir("all", all)
	_ = json.Unmarshal([]byte(job.Ident), &w.ident)
	_ = json.Unmarshal([]byte(job.Deps), &w.deps)
	w.identMap = core_domain.BuildIdentifierMap(w.ident)
	w.diMap = core_domain.BuildDIMap(w.ident, w.identMap)
	out := map[string]string{}
	// the four passes keep their state in four different packages, so one fresh process serves all
	for _, pass := range []string{"identifier", "full", "bs", "api"} {
		res, p := w.run(Op{Pass: pass, List: []int{job.File}}, "ref-"+pass)
		if p != "" {
			t.Fatalf("panic: %s", p)
		}
		out[pass] = res[job.File]
	}
	data, _ := json.Marshal(out)
	if err := os.WriteFile(os.Getenv("VERIF_C07_OUT"), data, 0644); err != nil {
		t.Fatal(err)
	}
}

// ---- graphs twice ----------------------------------------------------------------------

type GraphCase struct {
	Model mgen.Model `json:"model"`
	Root  string     `json:"root"`
	Kind  string     `json:"kind"` // call | lookup | rcall | api
	Times int        `json:"times"`
	// Steps, when present, is the history of generations (instead of Times generations of Kind for Root)
	Steps []GraphStep `json:"steps,omitempty"`
}

// GraphStep is one generation of a history.
type GraphStep struct {
	Kind string `json:"kind"`
	Root string `json:"root"`
	Half bool   `json:"half,omitempty"` // generated from the first half of the model's classes only (another input)
}

func genGraph(t *rapid.T) GraphCase {
	m := mgen.Gen(t, mgen.Options{})
	methods := m.Methods()
	root := "zz.Absent.nothing"
	var busy []string
	if len(methods) > 0 {
		root = rapid.SampledFrom(methods).Draw(t, "root")
		calls := m.Calls()
		for _, x := range methods {
			if len(calls[x]) > 0 {
				busy = append(busy, x)
			}
		}
		if len(busy) > 0 && rapid.IntRange(0, 3).Draw(t, "busyRoot") > 0 {
			root = rapid.SampledFrom(busy).Draw(t, "busy")
		}
	}
	kinds := []string{"call", "lookup", "rcall", "api"}
	c := GraphCase{Model: m, Root: root, Kind: rapid.SampledFrom(kinds).Draw(t, "kind"), Times: rapid.IntRange(2, 4).Draw(t, "times")}
	if rapid.IntRange(0, 2).Draw(t, "mixedHistory") == 2 {
		// a history of different generations in one process: the first one comes again at the end,
		// with one to four generations of other kinds, for other roots or from another model in between
		pool := []GraphStep{{Kind: c.Kind, Root: c.Root}}
		for k, n := 0, rapid.IntRange(1, 2).Draw(t, "nOtherGenerations"); k < n; k++ {
			st := GraphStep{Kind: rapid.SampledFrom(kinds).Draw(t, "stepKind"), Root: c.Root}
			if len(busy) > 0 && rapid.Bool().Draw(t, "stepOtherRoot") {
				st.Root = rapid.SampledFrom(busy).Draw(t, "stepRoot")
			}
			st.Half = rapid.IntRange(0, 3).Draw(t, "stepOtherModel") == 3
			pool = append(pool, st)
		}
		c.Steps = append(c.Steps, pool[0])
		for k, n := 0, rapid.IntRange(1, 4).Draw(t, "nBetween"); k < n; k++ {
			c.Steps = append(c.Steps, pool[rapid.IntRange(0, len(pool)-1).Draw(t, "between")])
		}
		c.Steps = append(c.Steps, pool[0])
	}
	return c
}

func edgesOf(text, first string, attrs ...string) (string, error) {
	es, err := dot.ParseFlat(text, first, attrs...)
	if err != nil {
		return "", err
	}
	var list []string
	for _, e := range es {
		list = append(list, e.From+" -> "+e.To)
	}
	sort.Strings(list)
	return strings.Join(list, "\n"), nil
}

func checkGraph(c GraphCase) pbt.Verdict {
	resetAll() // the start of a fresh process; nothing is reset between the generations
	steps := c.Steps
	if len(steps) == 0 {
		for k := 0; k < c.Times; k++ {
			steps = append(steps, GraphStep{Kind: c.Kind, Root: c.Root})
		}
	}
	whole := c.Model.ToCoca()
	half := mgen.Model{Classes: c.Model.Classes[:len(c.Model.Classes)/2]}.ToCoca()
	first := map[GraphStep]string{}
	firstAt := map[GraphStep]int{}
	labels := map[string]bool{}
	nontrivial := false
	for k, st := range steps {
		model := whole
		if st.Half {
			model = half
		}
		var text, head string
		var attrs []string
		var sizes string
		usedUp := false
		p := pbt.Call(func() {
			switch st.Kind {
			case "call", "lookup":
				text = call.NewCallGraph().Analysis(st.Root, model, st.Kind == "lookup")
				head, attrs = "digraph G {", []string{"rankdir = LR;"}
				usedUp = call.VerifLoopCountCall() >= call.VerifBudgetCall()
			case "rcall":
				text = rcall.NewRCallGraph().Analysis(st.Root, model, func(map[string][]string) {})
				head = "digraph G {"
				usedUp = rcall.VerifLoopCountRcall() >= rcall.VerifBudgetRcall()
			default:
				i := strings.LastIndex(st.Root, ".")
				cls := st.Root[:i]
				j := strings.LastIndex(cls, ".")
				apis := []api_domain.RestAPI{{HttpMethod: "GET", Uri: "/a", PackageName: cls[:j], ClassName: cls[j+1:], MethodName: st.Root[i+1:]}}
				var counts []api_domain.CallAPI
				text, counts = call.NewCallGraph().AnalysisByFiles(apis, model, nil)
				head = "digraph G {"
				sizes = canon(counts)
				usedUp = call.VerifLoopCountCall() >= call.VerifBudgetCall()
			}
		})
		if p != "" {
			return pbt.Fail("%s graph, generation %d panicked: %s", st.Kind, k+1, p)
		}
		es, err := edgesOf(text, head, attrs...)
		if err != nil {
			return pbt.Fail("%s graph, generation %d is not well-formed: %v\n%s", st.Kind, k+1, err, text)
		}
		result := es + sizes
		labels["graph_"+st.Kind] = true
		if usedUp {
			labels["graph_"+st.Kind+"_expansion_budget_used_up"] = true
		}
		if st.Half {
			labels["graph_history_with_generation_from_another_model"] = true
		}
		if st.Root != steps[0].Root {
			labels["graph_history_with_generation_for_another_root"] = true
		}
		if st.Kind != steps[0].Kind {
			labels["graph_history_with_generation_of_another_kind"] = true
		}
		if k == 0 {
			nontrivial = strings.Count(result, "->") >= 2
		}
		if want, seen := first[st]; seen {
			if result != want {
				return pbt.Fail("%s graph of %s: generation #%d in the same process differs from generation #%d of the same graph\n#%d:\n%s\n#%d:\n%s", st.Kind, st.Root, k+1, firstAt[st]+1, firstAt[st]+1, want, k+1, result)
			}
		} else {
			first[st], firstAt[st] = result, k
		}
	}
	if len(c.Steps) > 0 {
		labels["graph_history_mixed"] = true
	}
	v := pbt.Verdict{NonTrivial: nontrivial}
	for l := range labels {
		v.Classes = append(v.Classes, l)
	}
	sort.Strings(v.Classes)
	return v
}

func init() {
	pbt.SetProperty("C07")
	jgen.SetExcluded(pbt.Excluded)
	pbt.Describe("(files) rapid-generated sets of 2-25 Java files: conventional units from jgen with variable names deliberately reused across files and methods with different types (repo, item, value, it), with and without imports/superclass (for half of the cases also, each behind its own draw: anonymous classes as arguments, names reused inside a unit, unqualified calls of inherited or statically imported methods, super calls of declared methods, wildcard imports of project packages, method names shared between classes, further loop forms), plus 0-3 Spring controllers with and without a class-level mapping whose parameters reuse the same names (also: two controllers of one simple name in two packages, a controller in the default package, and controllers in other spellings: stereotype after the class-level mapping, class-level @RequestMapping without value or with path= / value= and further elements, method-level @RequestMapping with value and method, value= / path= forms, a request body typed by a class of the case, plain methods between the handlers), plus 0-2 top-level enums (constants only, with a method, with arguments, field, constructor and accessor, or with a constant that has a class body and a method calling super; possibly two enums of one simple name in two packages; a type of its package that the identifier pass does not list) each with 0-2 classes that use it through fields, parameters, locals, static calls, a switch and a for-each over values(), from the enum's own package without an import or from another package with a single-type import; for half of the cases plus 1-3 hand-built groups of one to four files (c07_shapes_test.go), each in one of four packages or in the default package (no package declaration): a class with a nested type (static, inner, private, interface, enum; first, between or after the members; possibly nested two levels deep; inner creation `this.new In()`), possibly with a second top-level type in the file and possibly with a second file of the same build; an interface with default and static methods and @Override on abstract methods, also as the last member; an abstract superclass with protected fields and a subclass that uses the inherited names (which the file does not declare) in methods, field initialisers before and after the members, instance and static initialiser blocks, super(...) and super.m() calls, possibly with a static import of an unqualified callee; a class with anonymous classes as argument, as local initialiser and in field initialisers; a class that carries Spring mapping annotations but no stereotype; an interface whose methods carry @ServiceMethod with one to three implementing classes (in the interface's package without import, or elsewhere with a single-type import or with the package imported on demand) and possibly a class that imports the interface and declares the same methods without implementing it (this last group is also drawn on its own for one case in five). A history of 2-8 operations `run pass P over list L` with P in {identifier, full, bad-smell, API} and L a random permutation of a random sub-list, all in one process with no reset in between; the identifier set and dependency model are computed once and held fixed: the identifier set from all files or (one case in three) from a strict, possibly empty, subset of them, so that the histories also analyse files the identifier set does not know, before or after the files that refer to their types. Oracle (metamorphic): the canonical per-file slice of every result (the entries named like a type the file declares, nested and second top-level ones included) equals the result for that file analysed alone from a clean state (clean state = reset hooks; for one case in ten additionally a fresh sub-process per file, which must agree). (graphs) rapid-generated call models; call graph / call graph with lookup / reverse call graph / API graph generated 2-4 times in a row after a clean start, or (one case in three) a history of 3-6 generations in which the first generation comes again at the end and the ones in between may be of another kind, for another root or from another model (the first half of the classes): every generation equals the first generation of the same graph (same kind, root and model) as edge multiset (and sizes). Non-trivial = a history with more than one file or more than one operation; a graph with >= 2 edges. Distinct = hash of the case.",
		"graphConnectedCall findings are excluded: they come from a third-party package that accumulates state across calls and they name no file (DESIGN.md section 6 row 22)",
		"directory-based passes (bad-smell, API) are given a directory holding copies of the listed files; paths are compared relative to that directory; these passes work through a directory in the order of the directory walk, so for them the order of the list means nothing and only the choice of files varies",
		"functions inside a type are compared sorted by line: their order is map order (C08)",
		"the identifier and full passes produce no entry for an enum file, so its slice there is empty in the reference and in every history alike; what such a file is there for is that it must leave the entries of the other files alone",
		"what the passes make of nested, anonymous and second top-level types, of initialiser blocks and of classes without stereotype is not judged (that is C01/C02/C12): only that it is the same in every history as for the file alone",
		"two generations of a graph are compared only when kind, root and model are the same; a generation from another input in between is there to leave state behind, its own result is compared with its own repetitions only",
		"layout of the text (line ends, byte order mark, tabs, long lines) and very long or non-ASCII names are not varied beyond what jgen does for this check: no pass keeps state that depends on them")
	pbt.Register("files", 250, 1000, gen, check)
	pbt.Register("graphs", 3000, 30000, genGraph, checkGraph)
}

func TestProp(t *testing.T)   { pbt.Main(t) }
func TestReplay(t *testing.T) { pbt.Replay(t) }
