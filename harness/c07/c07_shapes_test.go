// Hand-built file shapes of C07. Each shape exists because some package-level variable of a pass
// is left in a particular state at the end of such a file ("tail") or is read at the start of such
// a file before the file itself has written it ("probe"); the comment of each shape names them.
package c07

import (
	"fmt"
	"sort"
	"strings"

	"pgregory.net/rapid"

	"verif/internal/jgen"
)

// ref is a class of the case that a hand-built file may refer to.
type ref struct {
	pkg, name string
	methods   []string
}

type shaper struct {
	t    *rapid.T
	c    *Case
	refs []ref
	feat map[string]bool
}

func newShaper(t *rapid.T, c *Case, p jgen.Project) *shaper {
	s := &shaper{t: t, c: c, feat: map[string]bool{}}
	for _, u := range p.Units {
		if u.Kind != "Class" {
			continue
		}
		r := ref{pkg: u.Pkg, name: u.Name}
		for _, f := range u.Funcs {
			if !f.IsCtor {
				r.methods = append(r.methods, f.Name)
			}
		}
		s.refs = append(s.refs, r)
	}
	return s
}

func (s *shaper) pad() {
	for len(s.c.Kind) < len(s.c.Files) {
		s.c.Kind = append(s.c.Kind, "")
	}
	for len(s.c.More) < len(s.c.Files) {
		s.c.More = append(s.c.More, nil)
	}
}

// add appends a file; more are the simple names of further types the file declares.
func (s *shaper) add(kind, pkg, name, text string, more ...string) {
	s.pad()
	path := name + ".java"
	if pkg != "" {
		path = strings.ReplaceAll(pkg, ".", "/") + "/" + path
	} else {
		s.feat["file_in_default_package"] = true
	}
	s.c.Files = append(s.c.Files, jgen.File{Path: path, Text: text})
	s.c.Class = append(s.c.Class, pkg+"."+name)
	s.c.Kind = append(s.c.Kind, kind)
	var m []string
	for _, x := range more {
		m = append(m, pkg+"."+x)
	}
	s.c.More = append(s.c.More, m)
}

func (s *shaper) finish() {
	s.pad()
	for k := range s.feat {
		s.c.Feat = append(s.c.Feat, k)
	}
	sort.Strings(s.c.Feat)
}

var shapePkgs = []string{"com.acme", "com.acme.core", "org.demo", "app.client"}

// pkg draws the package of a hand-built file: one of the usual ones or, rarely, the default
// (unnamed) package: no package declaration, so whatever a pass remembers as "the current
// package" at the start of the file is what it had at the end of the previous one.
func (s *shaper) pkg(label string) string {
	if rapid.IntRange(0, 5).Draw(s.t, label+"Default") == 5 {
		return ""
	}
	return rapid.SampledFrom(shapePkgs).Draw(s.t, label)
}

func header(b *strings.Builder, pkg string, imports ...string) {
	if pkg != "" {
		fmt.Fprintf(b, "package %s;\n\n", pkg)
	}
	seen := map[string]bool{}
	n := 0
	for _, im := range imports {
		if im == "" || seen[im] {
			continue
		}
		seen[im] = true
		fmt.Fprintf(b, "import %s;\n", im)
		n++
	}
	if n > 0 {
		b.WriteString("\n")
	}
}

// use is a type a hand-built file refers to: simple name, import line (may be ""), a callee.
type use struct {
	typ, imp, callee string
	project          bool
}

// pick draws a class to refer to from a file of package pkg: a class of the case when there is
// one (imported when it lives elsewhere; a class of the default package cannot be imported),
// else a library class.
func (s *shaper) pick(pkg, label string, taken ...string) use {
	var cands []ref
	for _, r := range s.refs {
		ok := r.pkg == pkg || r.pkg != ""
		for _, x := range taken {
			if x == r.name {
				ok = false
			}
		}
		if ok {
			cands = append(cands, r)
		}
	}
	if len(cands) == 0 || rapid.IntRange(0, 4).Draw(s.t, label+"Library") == 4 {
		lib := []use{{typ: "StringBuilder", callee: "length"}, {typ: "Object", callee: "hashCode"}, {typ: "Thread", callee: "getName"}}
		var free []use
		for _, l := range lib {
			ok := true
			for _, x := range taken {
				if x == l.typ {
					ok = false
				}
			}
			if ok {
				free = append(free, l)
			}
		}
		return rapid.SampledFrom(free).Draw(s.t, label+"LibraryType")
	}
	r := rapid.SampledFrom(cands).Draw(s.t, label)
	u := use{typ: r.name, callee: "toString", project: true}
	if r.pkg != pkg {
		u.imp = r.pkg + "." + r.name
	}
	if len(r.methods) > 0 {
		u.callee = rapid.SampledFrom(r.methods).Draw(s.t, label+"Callee")
	}
	return u
}

// names draws n different reused variable names.
func (s *shaper) names(n int, label string) []string {
	perm := rapid.Permutation(reusedNames).Draw(s.t, label)
	return perm[:n]
}

// ---- nested types, a second top-level type, inner creation ------------------------------------
// full pass: classNodeQueue / currentNode / currentType "InnerStructures" (the queue keeps the
// outer class after a nested one), classStringQueue and currentClz (`x.new In()`), hasEnterClass
// (false after the nested body, inside the outer one); identifier pass: currentNode is emitted and
// re-created at the nested body's end; API pass: hasEnterClass.
func (s *shaper) nest(k int) {
	t := s.t
	pkg := s.pkg("nestPkg")
	outer, in, aux := fmt.Sprintf("Outer%d", k), fmt.Sprintf("In%d", k), fmt.Sprintf("Aux%d", k)
	a := s.pick(pkg, "nestRef")
	v := s.names(3, "nestNames")
	form := rapid.SampledFrom([]int{0, 1, 1, 2, 3, 4}).Draw(t, "nestedForm")
	pos := rapid.IntRange(0, 2).Draw(t, "nestedPos") // 0 after the members, 1 between them, 2 first
	deep := fmt.Sprintf("Deep%d", k)
	second := rapid.IntRange(0, 3).Draw(t, "secondTopLevel")
	var nested, create, call string
	switch form {
	case 0:
		inner := ""
		if rapid.IntRange(0, 2).Draw(t, "nestedDeeper") == 2 {
			// a type nested two levels deep
			inner = fmt.Sprintf("\n        static class %s {\n            int ping(String %s) {\n                return %s.length();\n            }\n        }\n", deep, v[2], v[2])
			s.feat["type_nested_two_levels_deep"] = true
		}
		nested = fmt.Sprintf("    public static class %s {\n        private %s %s;\n\n        @Override\n        public String toString() {\n            return String.valueOf(%s.%s());\n        }\n%s\n        void touch(String %s) {\n            %s.trim();\n        }\n    }\n", in, a.typ, v[0], v[0], a.callee, inner, v[1], v[1])
		create, call = "new "+in+"()", "touch(\"a\")"
	case 1:
		nested = fmt.Sprintf("    class %s {\n        void touch(String %s) {\n            %s.trim();\n            helper%d(%s);\n        }\n    }\n", in, v[0], v[0], k, v[0])
		create, call = "new "+in+"()", "touch(\"a\")"
		if rapid.IntRange(0, 3).Draw(t, "innerCreator") > 0 {
			create = "this.new " + in + "()"
			s.feat["inner_creator_expression"] = true
		}
	case 2:
		nested = fmt.Sprintf("    interface %s {\n        void touch(String %s);\n    }\n", in, v[0])
		create, call = "null", "touch(\"a\")"
	case 3:
		nested = fmt.Sprintf("    enum %s {\n        ON, OFF;\n\n        boolean on(String %s) {\n            return %s.isEmpty() && this == ON;\n        }\n    }\n", in, v[0], v[0])
		create, call = in+".ON", "on(\"a\")"
	default:
		nested = fmt.Sprintf("    private static final class %s {\n        private final %s %s;\n\n        %s(%s %s) {\n            this.%s = %s;\n        }\n\n        int touch(String %s) {\n            return %s.%s().hashCode();\n        }\n    }\n", in, a.typ, v[0], in, a.typ, v[0], v[0], v[0], v[1], v[0], a.callee)
		create, call = "new "+in+"(null)", "touch(\"a\")"
	}
	s.feat[[]string{"nested_static_class", "nested_inner_class", "nested_interface", "nested_enum", "nested_private_class"}[form]] = true
	s.feat[[]string{"nested_type_after_members", "nested_type_between_members", "nested_type_first"}[pos]] = true
	var b strings.Builder
	auxText := fmt.Sprintf("class %s {\n    void help(%s %s) {\n        %s.run%d(\"a\");\n    }\n}\n", aux, outer, v[2], v[2], k)
	header(&b, pkg, a.imp)
	if second == 3 {
		b.WriteString(auxText + "\n")
	}
	fmt.Fprintf(&b, "public class %s {\n", outer)
	if rapid.Bool().Draw(t, "nestField") {
		fmt.Fprintf(&b, "    private %s %s = new %s();\n\n", a.typ, v[0], a.typ)
	} else {
		fmt.Fprintf(&b, "    private %s %s;\n\n", a.typ, v[0])
	}
	if pos == 2 {
		b.WriteString(nested + "\n")
	}
	fmt.Fprintf(&b, "    public void run%d(String %s) {\n        %s %s = %s;\n        %s.%s;\n        %s.%s();\n    }\n\n", k, v[1], in, v[2], create, v[2], call, v[0], a.callee)
	if pos == 1 {
		b.WriteString(nested + "\n")
	}
	fmt.Fprintf(&b, "    @Override\n    public String toString() {\n        return String.valueOf(%s);\n    }\n\n", v[0])
	fmt.Fprintf(&b, "    void helper%d(String %s) {\n        %s.trim();\n    }\n", k, v[2], v[2])
	if pos == 0 {
		b.WriteString("\n" + nested)
	}
	b.WriteString("}\n")
	more := []string{in}
	if second == 2 {
		b.WriteString("\n" + auxText)
	}
	if second >= 2 {
		more = append(more, aux)
		s.feat["second_top_level_type"] = true
	}
	if s.feat["type_nested_two_levels_deep"] && strings.Contains(b.String(), "class "+deep+" ") {
		more = append(more, deep)
	}
	s.add("nest", pkg, outer, b.String(), more...)
	if rapid.IntRange(0, 3).Draw(t, "nestSibling") == 3 {
		// a second file of the same build (other type names), in the same or in another package
		twin := strings.NewReplacer(outer, outer+"b", in, in+"b", aux, aux+"b", deep, deep+"b")
		tpkg := pkg
		if pkg != "" && rapid.Bool().Draw(t, "nestSiblingOtherPkg") {
			tpkg = rapid.SampledFrom(shapePkgs).Draw(t, "nestSiblingPkg")
		}
		text := b.String()
		if tpkg != pkg {
			text = strings.Replace(text, "package "+pkg+";", "package "+tpkg+";", 1)
			if a.project && a.imp == "" {
				text = strings.Replace(text, "package "+tpkg+";\n\n", "package "+tpkg+";\n\nimport "+pkg+"."+a.typ+";\n\n", 1)
			}
			if a.imp == tpkg+"."+a.typ {
				text = strings.Replace(text, "import "+a.imp+";\n\n", "", 1)
			}
		}
		var tmore []string
		for _, m := range more {
			tmore = append(tmore, m+"b")
		}
		s.feat["two_files_with_nested_types_of_the_same_build"] = true
		s.add("nest", tpkg, outer+"b", twin.Replace(text), tmore...)
	}
}

// ---- interface with default and static methods, @Override on abstract methods -------------------
// full pass: currentClz is not written by an interface (a receiver named like the previous file's
// class is "self"), currentMethod is not cleared at the end of an interface method, isOverrideMethod
// stays set after `@Override` on the last member; identifier pass: isOverrideMethod is cleared by
// class methods only.
func (s *shaper) iface(k int) {
	t := s.t
	pkg := s.pkg("ifacePkg")
	name := fmt.Sprintf("Port%d", k)
	a := s.pick(pkg, "ifaceRef")
	v := s.names(3, "ifaceNames")
	var b strings.Builder
	header(&b, pkg, a.imp)
	ext := rapid.Bool().Draw(t, "ifaceExtends")
	if ext {
		fmt.Fprintf(&b, "public interface %s extends Runnable {\n", name)
	} else {
		fmt.Fprintf(&b, "public interface %s {\n", name)
	}
	if rapid.Bool().Draw(t, "ifaceConst") {
		b.WriteString("    int LIMIT = 3;\n\n")
	}
	fmt.Fprintf(&b, "    String name%d(String %s);\n\n", k, v[0])
	if rapid.IntRange(0, 2).Draw(t, "ifaceDefault") > 0 {
		fmt.Fprintf(&b, "    default String describe%d(%s %s, String %s) {\n        %s.%s();\n        return name%d(%s.trim());\n    }\n\n", k, a.typ, v[1], v[2], v[1], a.callee, k, v[2])
		s.feat["interface_default_method"] = true
	}
	if rapid.IntRange(0, 2).Draw(t, "ifaceStatic") == 2 {
		recv := "String.valueOf(" + v[0] + ")"
		if a.project {
			recv = a.typ + "." + a.callee + "()" // written like a static call on the class
		}
		fmt.Fprintf(&b, "    static %s of%d(%s %s) {\n        %s;\n        %s.%s();\n        return null;\n    }\n\n", name, k, a.typ, v[0], recv, v[0], a.callee)
		s.feat["interface_static_method"] = true
	}
	switch tail := rapid.IntRange(0, 2).Draw(t, "ifaceOverrideTail"); {
	case tail == 1 && ext:
		b.WriteString("    @Override\n    void run();\n")
		s.feat["interface_ends_with_override_method"] = true
	case tail == 2:
		b.WriteString("    @Override\n    String toString();\n")
		s.feat["interface_ends_with_override_method"] = true
	default:
		fmt.Fprintf(&b, "    void last%d();\n", k)
	}
	b.WriteString("}\n")
	s.add("iface", pkg, name, b.String())
}

// ---- a superclass with protected fields and a subclass that uses the inherited names -----------
// full pass: mapFields / localVars / formalParameters are read for a receiver the file does not
// declare, inside methods and, before any method has cleared the per-method tables, in field
// initialisers and initialiser blocks (methodQueue, currentMethod: calls outside any method);
// currentClzExtend and imports (super calls); imports (unqualified call of a statically imported
// name). bad-smell pass: fields / localVars / formalParameters are never cleared inside a file.
func (s *shaper) inherit(k int) {
	t := s.t
	bpkg := s.pkg("basePkg")
	spkg := bpkg
	if bpkg != "" && rapid.IntRange(0, 2).Draw(t, "subOtherPkg") == 2 {
		spkg = rapid.SampledFrom(shapePkgs).Draw(t, "subPkg")
	}
	base, sub := fmt.Sprintf("Base%d", k), fmt.Sprintf("Sub%d", k)
	a := s.pick(bpkg, "baseRef")
	v := s.names(4, "inheritNames")
	var b strings.Builder
	header(&b, bpkg, a.imp)
	fmt.Fprintf(&b, "public abstract class %s {\n    protected %s %s;\n    protected StringBuilder %s = new StringBuilder();\n\n", base, a.typ, v[0], v[1])
	fmt.Fprintf(&b, "    protected %s() {\n    }\n\n    protected %s(String %s) {\n        this();\n        %s.append(%s);\n    }\n\n", base, base, v[2], v[1], v[2])
	fmt.Fprintf(&b, "    protected void reset() {\n        %s = null;\n    }\n\n    protected void helper() {\n    }\n\n    public abstract int size%d();\n}\n", v[0], k)
	s.add("base", bpkg, base, b.String())

	// the subclass: its receivers are the inherited fields; parameters of the same names have other types
	b.Reset()
	imps := []string{}
	if spkg != bpkg {
		imps = append(imps, bpkg+"."+base)
	}
	static := rapid.IntRange(0, 2).Draw(t, "subStaticImport") == 2
	if static {
		imps = append(imps, "static com.acme.util.Helpers.helper")
		s.feat["static_import_of_helper"] = true
	}
	header(&b, spkg, imps...)
	fmt.Fprintf(&b, "public class %s extends %s {\n", sub, base)
	fieldInit := fmt.Sprintf("    private final int count = %s.hashCode();\n", v[0])
	labelInit := fmt.Sprintf("    private String label = String.valueOf(%s.length());\n", v[1])
	block := fmt.Sprintf("    {\n        %s.append(\"x\");\n        helper();\n    }\n", v[1])
	staticBlock := "    static {\n        System.out.println(\"init\");\n    }\n"
	ctor := fmt.Sprintf("    public %s(String %s) {\n        super(%s);\n        %s.append(%s.trim());\n    }\n", sub, v[2], v[2], v[1], v[2])
	size := fmt.Sprintf("    @Override\n    public int size%d() {\n        return %s.hashCode() + %s.length();\n    }\n", k, v[0], v[1])
	shadow := fmt.Sprintf("    void more%d(String %s, int %s) {\n        %s.trim();\n        super.reset();\n        %s.append(%s);\n    }\n", k, v[0], v[3], v[0], v[1], v[3])
	members := []string{}
	if rapid.Bool().Draw(t, "subFieldInit") {
		members = append(members, fieldInit)
		s.feat["field_initialiser_calls_inherited_name"] = true
	}
	if rapid.Bool().Draw(t, "subBlock") {
		members = append(members, block)
		s.feat["instance_initialiser_block"] = true
	}
	if rapid.IntRange(0, 2).Draw(t, "subStaticBlock") == 2 {
		members = append(members, staticBlock)
		s.feat["static_initialiser_block"] = true
	}
	members = append(members, ctor, size)
	if rapid.Bool().Draw(t, "subShadow") {
		members = append(members, shadow)
	}
	if rapid.Bool().Draw(t, "subTrailingInit") {
		members = append(members, labelInit)
		s.feat["field_initialiser_after_members"] = true
	}
	if rapid.IntRange(0, 2).Draw(t, "subShuffle") == 2 {
		members = rapid.Permutation(members).Draw(t, "subOrder")
	}
	b.WriteString(strings.Join(members, "\n"))
	b.WriteString("}\n")
	s.add("sub", spkg, sub, b.String())
}

// ---- anonymous classes --------------------------------------------------------------------
// full pass: currentType "CreatorClass", currentCreatorNode, creatorMethodMap; an anonymous class
// in a field initialiser is taken for one only while currentMethod still names a method.
func (s *shaper) job(k int) {
	t := s.t
	pkg := s.pkg("jobPkg")
	name := fmt.Sprintf("Job%d", k)
	a := s.pick(pkg, "jobRef")
	v := s.names(4, "jobNames")
	var b strings.Builder
	header(&b, pkg, a.imp, "java.util.Comparator")
	fmt.Fprintf(&b, "public class %s {\n", name)
	inField := rapid.IntRange(0, 2).Draw(t, "anonInField")
	if inField == 2 {
		fmt.Fprintf(&b, "    private final Runnable %s = new Runnable() {\n        @Override\n        public void run() {\n            %s.%s();\n        }\n    };\n", v[3], v[0], a.callee)
		s.feat["anonymous_class_in_field_initialiser"] = true
	}
	fmt.Fprintf(&b, "    private %s %s;\n\n", a.typ, v[0])
	if rapid.Bool().Draw(t, "anonAsArgument") {
		fmt.Fprintf(&b, "    void start%d(java.util.concurrent.Executor %s) {\n        %s.execute(new Runnable() {\n            @Override\n            public void run() {\n                %s.%s();\n            }\n        });\n    }\n\n", k, v[1], v[1], v[0], a.callee)
		s.feat["anonymous_class_as_argument"] = true
	}
	if rapid.Bool().Draw(t, "anonAsLocal") {
		fmt.Fprintf(&b, "    int order%d(String %s) {\n        Comparator<String> %s = new Comparator<String>() {\n            public int compare(String %s, String other) {\n                return %s.compareTo(other);\n            }\n\n            @Override\n            public String toString() {\n                return \"c\";\n            }\n        };\n        return %s.compare(%s, \"a\");\n    }\n\n", k, v[1], v[2], v[3], v[3], v[2], v[1])
		s.feat["anonymous_class_as_local_initialiser"] = true
	}
	fmt.Fprintf(&b, "    int after%d() {\n        return %s.hashCode();\n    }\n", k, v[0])
	if inField == 1 {
		fmt.Fprintf(&b, "\n    private final Runnable %s = new Runnable() {\n        public void run() {\n            after%d();\n        }\n    };\n", v[3], k)
		s.feat["anonymous_class_in_field_initialiser"] = true
	}
	b.WriteString("}\n")
	s.add("job", pkg, name, b.String())
}

// ---- API pass: mapping annotations without a stereotype, other spellings --------------------------
// API pass: isSpringRestController (a class that carries mapping annotations but neither
// @RestController nor @Controller yields entries only while the flag is still set), baseApiUrl,
// hasEnterRestController, currentRestAPI, requestBodyClass.
func (s *shaper) bareController(k int) {
	t := s.t
	pkg := rapid.SampledFrom([]string{"com.acme", "com.acme.web.api", "org.demo", "app.client"}).Draw(t, "barePkg")
	name := fmt.Sprintf("%s%d", rapid.SampledFrom([]string{"BaseCtl", "ZCtlSupport"}).Draw(t, "bareName"), k)
	v := s.names(2, "bareNames")
	var b strings.Builder
	header(&b, pkg, "org.springframework.web.bind.annotation.*")
	abstract := ""
	if rapid.Bool().Draw(t, "bareAbstract") {
		abstract = "abstract "
	}
	if rapid.IntRange(0, 2).Draw(t, "bareBase") == 2 {
		b.WriteString("@RequestMapping(\"/shared\")\n")
	}
	fmt.Fprintf(&b, "public %sclass %s {\n", abstract, name)
	fmt.Fprintf(&b, "    @GetMapping(\"/ping%d\")\n    public String ping(String %s) {\n        return %s.trim();\n    }\n", k, v[0], v[0])
	if rapid.Bool().Draw(t, "barePost") {
		fmt.Fprintf(&b, "\n    @RequestMapping(value = \"/put%d\", method = RequestMethod.POST)\n    public String put(@RequestBody Dto0 %s) {\n        return \"x\";\n    }\n", k, v[1])
	}
	b.WriteString("}\n")
	s.feat["class_with_mappings_without_stereotype"] = true
	s.add("barectl", pkg, name, b.String())
}

// richController is a controller in other spellings than controller() writes: the stereotype
// after the class-level mapping or absent from the first line, a class-level mapping without
// value, method-level @RequestMapping with value and method, value= / path= forms, a request
// body whose type is a class of the case, a handler without annotation between the handlers.
func (s *shaper) richController(name, pkg string) {
	t := s.t
	a := s.pick(pkg, "ctlBodyRef")
	v := s.names(2, "ctlNames")
	var b strings.Builder
	header(&b, pkg, "org.springframework.web.bind.annotation.*", a.imp)
	stereo := rapid.SampledFrom([]string{"@RestController\n", "@Controller\n"}).Draw(t, "ctlAnn")
	base := ""
	switch rapid.IntRange(0, 4).Draw(t, "ctlBaseForm") {
	case 1:
		base = "@RequestMapping(\"/alpha\")\n"
	case 2:
		base = "@RequestMapping(value = \"/beta/v1\", produces = \"application/json\")\n"
	case 3:
		base = "@RequestMapping\n"
	case 4:
		base = "@RequestMapping(path = \"/g\")\n"
	}
	if base != "" && rapid.Bool().Draw(t, "ctlBaseFirst") {
		b.WriteString(base + stereo)
		s.feat["class_mapping_before_stereotype"] = true
	} else {
		b.WriteString(stereo + base)
	}
	fmt.Fprintf(&b, "public class %s {\n", name)
	n := rapid.IntRange(1, 3).Draw(t, "nHandlers")
	for k := 0; k < n; k++ {
		switch rapid.IntRange(0, 4).Draw(t, "handlerForm") {
		case 0:
			fmt.Fprintf(&b, "    @GetMapping(\"/r%d\")\n", k)
		case 1:
			fmt.Fprintf(&b, "    @RequestMapping(value = \"/r%d\", method = RequestMethod.%s)\n", k, rapid.SampledFrom([]string{"GET", "POST", "PUT", "DELETE"}).Draw(t, "verb"))
		case 2:
			fmt.Fprintf(&b, "    @PostMapping(value = \"/r%d\")\n", k)
		case 3:
			fmt.Fprintf(&b, "    @PutMapping(path = \"/r%d\", consumes = \"application/json\")\n", k)
		default:
			fmt.Fprintf(&b, "    @RequestMapping(\"/r%d\")\n", k)
		}
		param := ""
		switch rapid.IntRange(0, 3).Draw(t, "paramKind") {
		case 1:
			param = fmt.Sprintf("@RequestBody %s %s", a.typ, v[0])
			if a.project {
				s.feat["request_body_is_a_class_of_the_case"] = true
			}
		case 2:
			param = fmt.Sprintf("@PathVariable(\"id\") String %s, @RequestBody Dto1 %s", v[1], v[0])
		case 3:
			param = "String " + v[0]
		}
		fmt.Fprintf(&b, "    public String handle%d(%s) {\n        return \"x\";\n    }\n\n", k, param)
		if rapid.IntRange(0, 3).Draw(t, "plainMethodBetween") == 3 {
			fmt.Fprintf(&b, "    String plain%d(String %s) {\n        return %s.trim();\n    }\n\n", k, v[1], v[1])
		}
	}
	b.WriteString("}\n")
	s.feat["controller_in_other_spelling"] = true
	s.add("ctl", pkg, name, b.String())
}

// ---- API pass: entries made from the annotations of an implemented interface ----------------------
// API pass: currentImplements, imports, identMap, currentRestAPI: a class that implements an
// imported interface of the identifier set gets an entry for every method the interface marks
// with @ServiceMethod. A class of the interface's own package (no import) gets none, and neither
// does a class that imports the interface and declares the same methods without implementing it.
func (s *shaper) service(k int) {
	t := s.t
	// often a package that a directory walk reaches after the packages of the implementations
	ipkg := rapid.SampledFrom([]string{"org.demo", "com.acme", "com.acme.core", "app.client", "org.demo"}).Draw(t, "svcPkg")
	svc := fmt.Sprintf("Svc%d", k)
	v := s.names(3, "svcNames")
	var b strings.Builder
	header(&b, ipkg)
	fmt.Fprintf(&b, "public interface %s {\n    @ServiceMethod\n    String handle%d(String %s);\n\n    void other%d();\n", svc, k, v[0], k)
	if rapid.Bool().Draw(t, "svcSecond") {
		fmt.Fprintf(&b, "\n    @ServiceMethod\n    @Deprecated\n    void second%d();\n", k)
	}
	b.WriteString("}\n")
	s.add("svc", ipkg, svc, b.String())
	nImpl := rapid.IntRange(1, 3).Draw(t, "nImpl")
	var implPkgs []string
	for j := 0; j < nImpl; j++ {
		// 0: in the interface's package, no import; 1: elsewhere, single-type import; 2: elsewhere, the
		// interface's package imported on demand (so, like 0, no import names the interface)
		place := rapid.IntRange(0, 2).Draw(t, "implPlace")
		pkg := ipkg
		if place > 0 {
			pkg = rapid.SampledFrom([]string{"app.client", "com.acme.web.api"}).Draw(t, "implPkg")
		}
		if pkg == ipkg {
			place = 0
		}
		implPkgs = append(implPkgs, pkg)
		name := fmt.Sprintf("Impl%d%c", k, 'a'+j)
		b.Reset()
		imp := ""
		switch place {
		case 0:
			s.feat["implements_service_interface_of_own_package"] = true
		case 1:
			imp = ipkg + "." + svc
			s.feat["implements_imported_service_interface"] = true
		default:
			imp = ipkg + ".*"
			s.feat["implements_service_interface_imported_on_demand"] = true
		}
		header(&b, pkg, imp)
		also := ""
		if rapid.IntRange(0, 3).Draw(t, "implTwo") == 3 {
			also = ", Runnable"
		}
		fmt.Fprintf(&b, "@Service\npublic class %s implements %s%s {\n", name, svc, also)
		fmt.Fprintf(&b, "    public String handle%d(String %s) {\n        return %s.trim();\n    }\n\n    public void other%d() {\n    }\n\n    public void second%d() {\n    }\n", k, v[1], v[1], k, k)
		if also != "" {
			b.WriteString("\n    public void run() {\n    }\n")
		}
		b.WriteString("}\n")
		s.add("impl", pkg, name, b.String())
	}
	if rapid.IntRange(0, 2).Draw(t, "svcProxy") > 0 {
		// named so that a directory walk comes to it after the implementations, and often in the
		// directory of one of them
		pkg := rapid.SampledFrom(append([]string{"app.client", "com.acme.web.api"}, implPkgs...)).Draw(t, "proxyPkg")
		name := fmt.Sprintf("Proxy%d", k)
		b.Reset()
		imp := ""
		if pkg != ipkg {
			imp = ipkg + "." + svc
		}
		header(&b, pkg, imp)
		fmt.Fprintf(&b, "public class %s {\n    private %s %s;\n\n    public String handle%d(String %s) {\n        return %s.handle%d(%s);\n    }\n\n    public void second%d() {\n        %s.second%d();\n    }\n}\n", name, svc, v[2], k, v[0], v[2], k, v[0], k, v[2], k)
		s.feat["same_methods_as_service_interface_without_implementing_it"] = true
		s.add("proxy", pkg, name, b.String())
	}
}

// extraShapes draws the hand-built files of a case: none at all for half of the cases.
// ctlFamily: controllers that extend each other across packages (seventh seed batch). The root carries the
// class-level mapping, the controllers below it none of their own; each file's entries are its own handlers
// under its own class-level mapping, whichever of the family's files were scanned before it.
func (s *shaper) ctlFamily(k int) {
	t := s.t
	pkgs := []string{"com.acme.web.base", "com.acme.web.mid", "com.acme.web.api"}
	if rapid.Bool().Draw(t, "famOnePackage") {
		pkgs = []string{"com.acme.web", "com.acme.web", "com.acme.web"}
	}
	// names that sort in either order, so that the scan reaches parent and child both ways round
	names := [][]string{{"ApiRoot", "MidCtl", "UsersCtl"}, {"ZRootCtl", "MidCtl", "AUsersCtl"}, {"BaseCtl", "ZMidCtl", "AccountCtl"}}[rapid.IntRange(0, 2).Draw(t, "famNames")]
	levels := rapid.IntRange(2, 3).Draw(t, "famLevels")
	for lv := 0; lv < levels; lv++ {
		var b strings.Builder
		imp := ""
		if lv > 0 && pkgs[lv] != pkgs[lv-1] {
			imp = fmt.Sprintf("%s.%s%d", pkgs[lv-1], names[lv-1], k)
		}
		header(&b, pkgs[lv], "org.springframework.web.bind.annotation.*", imp)
		stereo := rapid.SampledFrom([]string{"@RestController\n", "@Controller\n"}).Draw(t, "famAnn")
		base := ""
		if lv == 0 {
			base = rapid.SampledFrom([]string{"@RequestMapping(\"/api\")\n", "@RequestMapping(value = \"/api/v2\")\n", "@RequestMapping(path = \"/root\")\n"}).Draw(t, "famBase")
		}
		if rapid.Bool().Draw(t, "famBaseFirst") {
			b.WriteString(base + stereo)
		} else {
			b.WriteString(stereo + base)
		}
		ext := ""
		if lv > 0 {
			ext = fmt.Sprintf(" extends %s%d", names[lv-1], k)
		}
		fmt.Fprintf(&b, "public class %s%d%s {\n", names[lv], k, ext)
		fmt.Fprintf(&b, "    @GetMapping(\"/%s%d\")\n    public String list%d() {\n        return \"x\";\n    }\n", strings.ToLower(names[lv]), k, lv)
		if rapid.Bool().Draw(t, "famSecondHandler") {
			fmt.Fprintf(&b, "\n    @PostMapping(\"/%s%d/new\")\n    public String create%d(@RequestBody Dto0 dto) {\n        return \"x\";\n    }\n", strings.ToLower(names[lv]), k, lv)
		}
		b.WriteString("}\n")
		s.add("ctl", pkgs[lv], fmt.Sprintf("%s%d", names[lv], k), b.String())
	}
	s.feat["controllers_extending_each_other"] = true
}

func (s *shaper) extraShapes() {
	t := s.t
	n := 0
	if rapid.Bool().Draw(t, "extraShapes") {
		n = rapid.IntRange(1, 3).Draw(t, "nExtraShapes")
	}
	count := map[int]int{}
	if rapid.IntRange(0, 4).Draw(t, "serviceFamily") == 4 {
		// the smallest group, and the one whose files must meet in one API pass: drawn more often
		s.service(0)
		count[5]++
	}
	for i := 0; i < n; i++ {
		kind := rapid.SampledFrom([]int{0, 1, 2, 3, 4, 5, 0, 2, 5, 5, 6, 6}).Draw(t, "shapeKind")
		k := count[kind]
		count[kind]++
		switch kind {
		case 0:
			s.nest(k)
		case 1:
			s.iface(k)
		case 2:
			s.inherit(k)
		case 3:
			s.job(k)
		case 4:
			s.bareController(k)
		case 6:
			s.ctlFamily(k)
		default:
			s.service(k)
		}
	}
}
