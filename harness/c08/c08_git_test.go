package c08

import (
	"bytes"
	"fmt"
	"sort"
	"strings"

	"github.com/boyter/scc/processor"
	"github.com/modernizing/coca/pkg/application/git"
	"github.com/modernizing/coca/pkg/domain/cloc"
	"github.com/modernizing/coca/pkg/infrastructure/ast/ast_go"
	"github.com/modernizing/coca/pkg/infrastructure/string_helper"
	"pgregory.net/rapid"

	"verif/internal/ggen"
	"verif/internal/pbt"
)

// ---------------------------------------------------------------------------------------
// sub-check "git": log text -> commit list -> summaries

type GitCase struct {
	History ggen.History `json:"history"`
	Hashes  []string     `json:"hashes"`
	Reps    int          `json:"reps,omitempty"`
}

func gitOptions() ggen.Options {
	// few commits over few files by 1-4 authors: ties in revision counts, commit counts and
	// dates are the rule; renames with modification, deletes and re-creations included.
	// Plain subjects: the header shapes the pinned parser gets wrong are C14's subject.
	return ggen.Options{MaxCommits: 7, MaxPaths: 4, PlainSubjects: true, Empty: true}
}

// genBulkHistory: an import of 9-16 files in one commit (a map of more than eight entries is
// iterated in any order, not only in rotations of the insertion order; more than ten files in one
// change-log section), then commits that touch subsets of 1-12 of them, by 2-4 authors on few
// distinct days (ties in every sort key), under several conventional-commit keywords; a directory
// move of some files without edits, and deletions.
func genBulkHistory(t *rapid.T) ggen.History {
	dirs := []string{"src", "src/core", "docs", "lib"}
	n := rapid.IntRange(9, 16).Draw(t, "nBulkFiles")
	maxTouched := 12
	if rapid.IntRange(0, 3).Draw(t, "bigImport") == 3 {
		// more files than the default table size of `coca git` (20), in part more than 32
		n = rapid.IntRange(21, 40).Draw(t, "nBigImportFiles")
		maxTouched = 30
	}
	var paths []string
	lines := map[string]int{}
	for i := 0; i < n; i++ {
		p := fmt.Sprintf("%s/f%02d.go", dirs[rapid.IntRange(0, len(dirs)-1).Draw(t, "bulkDir")], i)
		paths = append(paths, p)
	}
	authors := []string{"Ann Lee", "Bob 2", "R2D2", "Ann"}[:rapid.IntRange(2, 4).Draw(t, "nBulkAuthors")]
	minCommits, maxCommits := 1, 7
	many, turn := false, 0
	if rapid.IntRange(0, 3).Draw(t, "manyAuthors") >= 2 {
		many = true
		// a team of 9-20: the author map leaves the one-bucket regime; near-twin names
		pool := []string{"Ann Lee", "Bob 2", "R2D2", "Ann", "Ann Lee 2", "ann lee", "Bo", "Bob", "Cy 3", "Dev 01", "Dev 02", "Dev 10", "Eve", "Eve Z", "Finn", "Gus", "Hal 9", "Ivy", "Jo", "Kai"}
		authors = pool[:rapid.IntRange(9, len(pool)).Draw(t, "nManyAuthors")]
		minCommits, maxCommits = 9, 24
	}
	subjects := [][2]string{{"fix: update files", "fix"}, {"feat: add tests", "feat"}, {"docs(core): readme", "docs"}, {"cleanup and bump", ""},
		{"refactor: move files", "refactor"}, {"chore: bump", "chore"}, {"test(api v2): add tests", "test"}}
	day := 0
	mk := func(subject [2]string) ggen.Commit {
		day += rapid.IntRange(0, 1).Draw(t, "bulkDays")
		author := ""
		if many && rapid.IntRange(0, 2).Draw(t, "nextAuthorInTurn") > 0 {
			author = authors[turn%len(authors)] // most commits of a big team go round the team
			turn++
		} else {
			author = rapid.SampledFrom(authors).Draw(t, "bulkAuthor")
		}
		return ggen.Commit{Author: author, Date: fmt.Sprintf("2019-03-%02d", 1+day),
			Clock: "12:00:00", Zone: "+0000", Subject: subject[0], Type: subject[1]}
	}
	var h ggen.History
	c := mk(subjects[rapid.IntRange(0, 1).Draw(t, "importSubject")])
	for _, p := range paths {
		k := rapid.IntRange(1, 4).Draw(t, "bulkLines")
		lines[p] = k
		c.Ops = append(c.Ops, ggen.Op{Kind: "add", Path: p, Lines: k})
	}
	h.Commits = append(h.Commits, c)
	live := append([]string(nil), paths...)
	nc := rapid.IntRange(minCommits, maxCommits).Draw(t, "nBulkCommits")
	for i := 0; i < nc && len(live) > 0; i++ {
		c := mk(rapid.SampledFrom(subjects).Draw(t, "bulkSubject"))
		k := rapid.IntRange(1, min(maxTouched, len(live))).Draw(t, "bulkTouched")
		perm := rapid.Permutation(live).Draw(t, "bulkSubset")
		kind := rapid.IntRange(0, 5).Draw(t, "bulkKind") // 0-3 modify, 4 move to another directory, 5 delete
		if kind == 5 {
			k = min(k, 3)
		}
		for _, p := range perm[:k] {
			switch kind {
			case 4:
				to := "moved/" + p[strings.LastIndex(p, "/")+1:]
				if strings.HasPrefix(p, "moved/") {
					to = "back/" + p[strings.LastIndex(p, "/")+1:]
				}
				c.Ops = append(c.Ops, ggen.Op{Kind: "rename", Path: p, To: to})
				lines[to] = lines[p]
				for j := range live {
					if live[j] == p {
						live[j] = to
					}
				}
			case 5:
				c.Ops = append(c.Ops, ggen.Op{Kind: "delete", Path: p})
				for j := range live {
					if live[j] == p {
						live = append(live[:j:j], live[j+1:]...)
						break
					}
				}
			default:
				ins := rapid.IntRange(1, 3).Draw(t, "bulkIns")
				c.Ops = append(c.Ops, ggen.Op{Kind: "modify", Path: p, Ins: ins})
				lines[p] += ins
			}
		}
		h.Commits = append(h.Commits, c)
	}
	return h
}

func genGit(t *rapid.T) GitCase {
	var h ggen.History
	switch rapid.IntRange(0, 4).Draw(t, "historyShape") {
	case 3:
		h = genBulkHistory(t)
	case 4:
		// side branches with merge commits and binary files (printed `-\t-\tpath`)
		o := gitOptions()
		o.Merges, o.Binary = true, true
		h = ggen.Gen(t, o)
	default:
		h = ggen.Gen(t, gitOptions())
	}
	sim, err := ggen.Simulate(h)
	if err != nil {
		panic("c08: generated history does not simulate: " + err.Error())
	}
	return GitCase{History: h, Hashes: ggen.GenHashes(t, len(sim.Log()))}
}

func changeItems(chs []git.FileChange) []string {
	var out []string
	for _, ch := range chs {
		out = append(out, fmt.Sprintf("%q +%d -%d %s", ch.File, ch.Added, ch.Deleted, ch.Mode))
	}
	sort.Strings(out)
	return out
}

// canonCommits: the commit list in log order, the changes of a commit as a multiset.
func canonCommits(msgs []git.CommitMessage) string {
	var lines []string
	for _, m := range msgs {
		lines = append(lines, fmt.Sprintf("[%s] %q %s %q %v", m.Rev, m.Author, m.Date, m.Message, changeItems(m.Changes)))
	}
	return strings.Join(lines, "\n")
}

func expectedCommits(exp []ggen.Expected) string {
	var msgs []git.CommitMessage
	for _, e := range exp {
		m := git.CommitMessage{Rev: e.Rev, Author: e.Author, Date: e.Date, Message: e.Subject}
		for _, ch := range e.Changes {
			m.Changes = append(m.Changes, git.FileChange{Added: ch.Added, Deleted: ch.Deleted, File: ch.File, Mode: ch.Mode})
		}
		msgs = append(msgs, m)
	}
	return canonCommits(msgs)
}

// canonChangeLogText: the output of ShowChangeLogSummary. Sections come in map order (a
// collection); the lines of a section come through SortWord.
func canonChangeLogText(text string) string {
	var sections []string
	for _, sec := range strings.Split(text, "=====================\n") {
		if strings.TrimSpace(sec) == "" {
			continue
		}
		lines := strings.Split(strings.TrimSuffix(sec, "\n"), "\n")
		var items, keys []string
		for _, l := range lines[1:] {
			if strings.HasPrefix(l, "-----") {
				continue
			}
			items = append(items, l)
			k := l
			if i := strings.LastIndex(l, ", "); i >= 0 {
				k = l[i+2:]
			}
			keys = append(keys, k)
		}
		sections = append(sections, strings.ReplaceAll(lines[0]+"\n"+sortedRuns(items, keys), "\n", " ¶ "))
	}
	return multiset(sections)
}

func summaryReports(prefix string, msgs []git.CommitMessage) []report {
	var out []report
	team := git.GetTeamSummary(msgs)
	var items, keys []string
	for _, s := range team {
		items = append(items, fmt.Sprintf("%q revs=%d authors=%d", s.EntityName, s.RevsCount, s.AuthorCount))
		keys = append(keys, fmt.Sprint(s.RevsCount))
	}
	out = append(out, report{prefix + "team-summary", js(team), sortedRuns(items, keys)})

	top := git.GetTopAuthors(msgs)
	items, keys = nil, nil
	for _, a := range top {
		items = append(items, fmt.Sprintf("%q commits=%d lines=%d", a.Name, a.CommitCount, a.LineCount))
		keys = append(keys, fmt.Sprint(a.CommitCount))
	}
	out = append(out, report{prefix + "top-authors", js(top), sortedRuns(items, keys)})

	ages := git.CalculateCodeAge(msgs)
	items, keys = nil, nil
	var rawAges []string
	for _, a := range ages {
		day := a.Age.Format("2006-01-02")
		items = append(items, fmt.Sprintf("%q first=%s authors=%d revs=%d", a.EntityName, day, len(a.Authors), len(a.Revs)))
		keys = append(keys, day)
		rawAges = append(rawAges, a.EntityName)
	}
	out = append(out, report{prefix + "code-age", strings.Join(rawAges, "\n"), sortedRuns(items, keys)})

	basic := git.BasicSummary(msgs)
	out = append(out, report{prefix + "basic-summary", js(basic), js(basic)})

	cm := git.BuildChangeMap(msgs)
	var lines []string
	tooLong := false
	for kw, files := range cm {
		if len(files) > 10 {
			tooLong = true
		}
		for f, n := range files {
			lines = append(lines, fmt.Sprintf("%s: %q = %d", kw, f, n))
		}
	}
	out = append(out, report{prefix + "change-map", "", multiset(lines)})
	// the printed summary keeps the first ten lines of a section: with more than ten files
	// the choice among tied lines would be free, so the text is compared only below that
	var buf bytes.Buffer
	git.ShowChangeLogSummary(msgs, &buf)
	if !tooLong {
		out = append(out, report{prefix + "change-log-text", buf.String(), canonChangeLogText(buf.String())})
	} else {
		// a section of more than ten files is cut at ten lines: the lines shown are a collection
		// that must not depend on the run (as in the tables sub-check)
		out = append(out, report{prefix + "change-log-text", buf.String(), "cut sections\n" + multiset(strings.Split(strings.TrimSpace(buf.String()), "\n"))})
	}
	return out
}

func checkGit(c GitCase) pbt.Verdict {
	sim, err := ggen.Simulate(c.History)
	if err != nil {
		ggen.HarnessFatal("case does not simulate: %v", err)
	}
	if len(c.Hashes) != len(sim.Log()) {
		ggen.HarnessFatal("case has %d hashes for %d commits", len(c.Hashes), len(sim.Log()))
	}
	exp := ggen.Expect(sim, c.Hashes)
	text := ggen.Emulate(sim, c.Hashes)
	want := expectedCommits(exp)
	misparsed := false
	v := repeat("git", reps(c.Reps), func(rep int) []report {
		resetAll()
		var msgs []git.CommitMessage
		out := guard("commit-list", func() []report {
			msgs = git.BuildMessageByInput(text)
			canon := canonCommits(msgs)
			if rep == 0 && canon != want {
				misparsed = true
			}
			return []report{{"commit-list", js(msgs), canon}}
		})
		return append(out, guard("summaries", func() []report { return summaryReports("", msgs) })...)
	})
	if misparsed && v.Violation == "" {
		// the parser's output is not the history: C14's subject; what a summary of a wrong
		// commit list should be is not defined
		pbt.Count("git/parser_output_differs_from_history_skipped", 1)
		return pbt.Verdict{Skip: true}
	}
	multi, rename := false, false
	for _, e := range exp {
		if len(e.Changes) >= 2 {
			multi = true
		}
		for _, d := range e.Entries {
			if d.Kind == 'R' {
				rename = true
			}
		}
	}
	if multi {
		v.Classes = append(v.Classes, "git/commit_with_two_or_more_files")
	}
	for _, e := range exp {
		if len(e.Changes) > 8 {
			v.Classes = append(v.Classes, "git/commit_with_more_than_eight_files")
			break
		}
	}
	for _, cm := range c.History.Commits {
		if cm.Merge {
			v.Classes = append(v.Classes, "git/has_merge")
			break
		}
	}
	if rename {
		v.Classes = append(v.Classes, "git/has_rename")
	}
	authors, entities := map[string]bool{}, map[string]bool{}
	for _, e := range exp {
		authors[e.Author] = true
		for _, ch := range e.Changes {
			entities[ch.File] = true
		}
	}
	if len(authors) > 8 {
		v.Classes = append(v.Classes, "git/more_than_eight_authors")
	}
	if len(entities) > 20 {
		v.Classes = append(v.Classes, "git/more_than_twenty_entities")
	}
	if len(entities) > 32 {
		v.Classes = append(v.Classes, "git/more_than_thirty_two_entities")
	}
	return v
}

// ---------------------------------------------------------------------------------------
// sub-check "tables": the map-to-rows helpers called directly

type TablesCase struct {
	Dirs      []string       `json:"dirs"`      // directory names (rows of the per-directory table)
	Langs     []string       `json:"langs"`     // language keys (columns)
	Code      [][]int64      `json:"code"`      // Code[dir][lang]
	Words     map[string]int `json:"words"`     // input of SortWord
	WordOrder []string       `json:"wordOrder"` // insertion order
	GoCode    string         `json:"goCode"`    // a Go file with several types
	GoName    string         `json:"goName"`
	LogFiles  []int          `json:"logFiles,omitempty"` // change counts of 11-14 files touched by `fix:` commits (ties across rank 10)
	Reps      int            `json:"reps,omitempty"`
}

func genTables(t *rapid.T) TablesCase {
	var c TablesCase
	// more than eight entries: any iteration order, not only rotations of the insertion order
	nd := rapid.IntRange(2, 12).Draw(t, "nDirs")
	dirPool := []string{"core", "web", "docs", "cmd", "util", "api", "api.v1", "api.v2", "build", "x", "core2", "zz"}
	c.Dirs = dirPool[:nd]
	if rapid.IntRange(0, 4).Draw(t, "manyDirs") == 4 {
		// 17-40 directories: past 16 and 32 rows
		for i, n := 0, rapid.IntRange(17, 40).Draw(t, "nManyDirs")-nd; i < n; i++ {
			c.Dirs = append(c.Dirs, fmt.Sprintf("mod%02d", i))
		}
	}
	nl := rapid.IntRange(1, 3).Draw(t, "nLangs")
	c.Langs = []string{"Java", "Go", "Markdown"}[:nl]
	for range c.Dirs {
		row := make([]int64, nl)
		for j := range row {
			row[j] = int64(rapid.IntRange(0, 3).Draw(t, "code"))
		}
		c.Code = append(c.Code, row)
	}
	c.Words = map[string]int{}
	nw := rapid.IntRange(2, 12).Draw(t, "nWords")
	wordPool := []string{"order", "item", "create", "zeta", "alpha", "beta", "Order", "orders", "a", "id", "ship", "zz"}
	for i := 0; i < nw; i++ {
		c.Words[wordPool[i]] = rapid.IntRange(1, 3).Draw(t, "wordCount")
		c.WordOrder = append(c.WordOrder, wordPool[i])
	}
	if rapid.IntRange(0, 4).Draw(t, "manyWords") == 4 {
		for i, n := 0, rapid.IntRange(17, 40).Draw(t, "nManyWords")-nw; i < n; i++ {
			w := fmt.Sprintf("word%02d", i)
			c.Words[w] = rapid.IntRange(1, 3).Draw(t, "wordCount")
			c.WordOrder = append(c.WordOrder, w)
		}
	}
	// Go front-end: 2-4 struct types, each declared before its methods
	var b strings.Builder
	b.WriteString("package demo\n\n")
	nt := rapid.IntRange(2, 10).Draw(t, "nGoTypes")
	typePool := []string{"Order", "Item", "Zeta", "Alpha", "Beta", "order", "Items", "Repo", "A", "Zz"}
	order := rapid.Permutation(typePool[:nt]).Draw(t, "goTypeOrder")
	for ti, name := range order {
		// 0,1 struct declared before its methods; 2 methods written before the struct; 3 interface
		shape := rapid.IntRange(0, 3).Draw(t, "goTypeShape")
		nm := rapid.IntRange(0, 2).Draw(t, "nGoMethods")
		methods := func() {
			for k := 0; k < nm; k++ {
				fmt.Fprintf(&b, "func (x *%s) Do%d() string {\n\treturn x.Name\n}\n\n", name, k)
			}
		}
		switch shape {
		case 3:
			fmt.Fprintf(&b, "type %s interface {\n\tRun(n int) string\n", name)
			if nm > 0 {
				fmt.Fprintf(&b, "\tStop()\n")
			}
			fmt.Fprintf(&b, "}\n\n")
		case 2:
			methods()
			fmt.Fprintf(&b, "type %s struct {\n\tName string\n\tSize int\n\tF%d *%s\n}\n\n", name, ti, order[0])
		default:
			// every type has a field of its own: entries cannot stand in for one another
			fmt.Fprintf(&b, "type %s struct {\n\tName string\n\tF%d int\n}\n\n", name, ti)
			methods()
		}
		if rapid.IntRange(0, 3).Draw(t, "goPlainFunc") == 0 {
			fmt.Fprintf(&b, "func New%s() string {\n\treturn \"%s\"\n}\n\n", name, name)
		}
	}
	c.GoCode = b.String()
	c.GoName = "demo/demo.go"
	// change-log summary of one keyword over more than ten files, most of them tied
	nf := rapid.IntRange(11, 14).Draw(t, "nLogFiles")
	for i := 0; i < nf; i++ {
		c.LogFiles = append(c.LogFiles, rapid.SampledFrom([]int{1, 1, 1, 2, 3}).Draw(t, "logFileCount"))
	}
	return c
}

func checkTables(c TablesCase) pbt.Verdict {
	v := checkTablesReports(c)
	if len(c.Dirs) > 16 {
		v.Classes = append(v.Classes, "tables/more_than_sixteen_directories")
	}
	if len(c.WordOrder) > 16 {
		v.Classes = append(v.Classes, "tables/more_than_sixteen_words")
	}
	return v
}

func checkTablesReports(c TablesCase) pbt.Verdict {
	return repeat("tables", reps(c.Reps), func(rep int) []report {
		resetAll()
		// per-directory line-count rows
		out := guard("cloc-rows", func() []report {
			lm := map[string]map[string]processor.LanguageSummary{}
			for i, d := range c.Dirs {
				lm[d] = map[string]processor.LanguageSummary{}
				for j, l := range c.Langs {
					lm[d][l] = processor.LanguageSummary{Name: l, Code: c.Code[i][j]}
				}
			}
			rows := cloc.BuildClocCsvData(lm, c.Langs)
			var lines []string
			for _, r := range rows[1:] {
				lines = append(lines, strings.Join(r, ","))
			}
			return []report{{"cloc-rows", js(rows), "header " + strings.Join(rows[0], ",") + "\n" + multiset(lines)}}
		})
		// the change-log summary cuts each section at ten rows: the rows shown are a collection
		// that must not depend on the run
		out = append(out, guard("changelog-cut", func() []report {
			var msgs []git.CommitMessage
			round := 0
			for more := true; more; round++ {
				more = false
				m := git.CommitMessage{Rev: fmt.Sprintf("%07x", 0xabc000+round), Author: "Ann", Date: "2020-01-01", Message: "fix: round"}
				for i, n := range c.LogFiles {
					if n > round {
						more = true
						m.Changes = append(m.Changes, git.FileChange{Added: 1, File: fmt.Sprintf("src/f%02d.go", i)})
					}
				}
				if len(m.Changes) > 0 {
					msgs = append(msgs, m)
				}
			}
			var buf bytes.Buffer
			git.ShowChangeLogSummary(msgs, &buf)
			lines := strings.Split(strings.TrimSpace(buf.String()), "\n")
			return []report{{"changelog-cut", buf.String(), multiset(lines)}}
		})...)
		// SortWord on a map given directly
		out = append(out, guard("sort-word", func() []report {
			words := map[string]int{}
			for _, k := range c.WordOrder {
				words[k] = c.Words[k]
			}
			pl := string_helper.SortWord(words)
			return []report{{"sort-word", js(pl), canonPairs(pl)}}
		})...)
		// Go front-end: the types of a file are collected in a map and sorted by name
		return append(out, guard("go-types-sorted", func() []report {
			parser := ast_go.NewCocagoParser()
			file := parser.ProcessString(c.GoCode, c.GoName, nil)
			var items, keys []string
			for _, ds := range file.DataStructures {
				items = append(items, js(canonJSON(decode(js(ds)))))
				keys = append(keys, ds.NodeName)
			}
			var members []string
			for _, m := range file.Members {
				members = append(members, js(m))
			}
			return []report{{"go-types-sorted", js(file.DataStructures), sortedRuns(items, keys)},
				{"go-file-members", js(file.Members), multiset(members)}}
		})...)
	})
}

func registerGit() {
	pbt.Register("git", 150, 600, genGit, checkGit)
}

func registerMisc() {
	pbt.Register("tables", 100, 400, genTables, checkTables)
}
