package c08

import (
	"bytes"
	"fmt"
	"os"
	"path/filepath"
	"sort"
	"strings"

	"github.com/modernizing/coca/pkg/adapter/cocafile"
	"github.com/modernizing/coca/pkg/application/analysis/javaapp"
	"github.com/modernizing/coca/pkg/application/api"
	"github.com/modernizing/coca/pkg/application/bs"
	"github.com/modernizing/coca/pkg/application/call"
	"github.com/modernizing/coca/pkg/application/concept"
	"github.com/modernizing/coca/pkg/application/count"
	"github.com/modernizing/coca/pkg/application/evaluate"
	"github.com/modernizing/coca/pkg/application/evaluate/evaluator"
	"github.com/modernizing/coca/pkg/application/rcall"
	"github.com/modernizing/coca/pkg/application/tbs"
	"github.com/modernizing/coca/pkg/application/visual"
	"github.com/modernizing/coca/pkg/domain/api_domain"
	"github.com/modernizing/coca/pkg/domain/bs_domain"
	"github.com/modernizing/coca/pkg/domain/core_domain"
	"github.com/modernizing/coca/pkg/infrastructure/string_helper"
	"pgregory.net/rapid"

	"verif/internal/cli"
	"verif/internal/dot"
	"verif/internal/jgen"
	"verif/internal/pbt"
)

// JavaCase is a source tree plus the arguments of the graph commands.
type JavaCase struct {
	Files []jgen.File `json:"files"`
	Roots []string    `json:"roots"` // pkg.Class.method: roots of the call / reverse call graphs
	Reps  int         `json:"reps,omitempty"`
	// kinds named in the ignore list of the bad-smell report (`coca bs -x a,b`); none = the plain report only
	Ignore []string `json:"ignore,omitempty"`
	// richness of the conventional units (class label only): 0 plain, 1 further statement and declaration forms, 2 also exotic names, static / wildcard imports, loops, reused names
	Rich int `json:"rich,omitempty"`
}

// ---------------------------------------------------------------------------------------
// generator: a small shop application whose map-driven collections have 2-4 entries

const shopPkg = "com.acme.shop"

type jw struct{ b strings.Builder }

func (w *jw) f(format string, a ...interface{}) { fmt.Fprintf(&w.b, format, a...) }

var longParams = [][2]string{{"String", "name"}, {"int", "qty"}, {"String", "addr"}, {"long", "when"}, {"String", "note"}, {"boolean", "flag"}, {"int", "prio"}}

func paramList(ps [][2]string) string {
	var out []string
	for _, p := range ps {
		out = append(out, p[0]+" "+p[1])
	}
	return strings.Join(out, ", ")
}

func returnStmt(ret string) string {
	switch ret {
	case "void":
		return ""
	case "int":
		return "        return 1;\n"
	case "String":
		return "        return \"s\";\n"
	case "boolean":
		return "        return true;\n"
	}
	return "        return new " + ret + "();\n"
}

// dataClass: getters and setters only (dataClass smell with Size = number of methods).
func dataClass(t *rapid.T, name string) jgen.File {
	w := &jw{}
	w.f("package %s;\n\npublic class %s {\n", shopPkg, name)
	n := rapid.IntRange(1, 2).Draw(t, "nProps")
	props := []string{"Name", "Qty"}
	for i := 0; i < n; i++ {
		w.f("    private String %s;\n", strings.ToLower(props[i]))
	}
	for i := 0; i < n; i++ {
		low := strings.ToLower(props[i])
		w.f("\n    public String get%s() {\n        return %s;\n    }\n", props[i], low)
		w.f("\n    public void set%s(String %s) {\n        this.%s = %s;\n    }\n", props[i], low, low, low)
	}
	w.f("}\n")
	return jgen.File{Path: "com/acme/shop/" + name + ".java", Text: w.b.String()}
}

func repoClass(t *rapid.T) (jgen.File, []string) {
	w := &jw{}
	w.f("package %s;\n\npublic class OrderRepo {\n", shopPkg)
	names := []string{"find", "save", "count", "drop"}
	n := rapid.IntRange(2, 4).Draw(t, "nRepoMethods")
	var methods []string
	for i := 0; i < n; i++ {
		switch names[i] {
		case "find":
			w.f("    public Order find(int id) {\n        if (id < 0) {\n            return null;\n        }\n        return new Order();\n    }\n\n")
		case "save":
			w.f("    public void save(Order order) {\n        this.count();\n    }\n\n")
		case "count":
			w.f("    public int count() {\n        return 1;\n    }\n\n")
		default:
			w.f("    public Item drop(int id) {\n        return null;\n    }\n\n")
		}
		methods = append(methods, shopPkg+".OrderRepo."+names[i])
	}
	switch rapid.IntRange(0, 3).Draw(t, "repoOverload") {
	case 1, 2:
		w.f("    public Order find(String key) {\n        return this.find(1);\n    }\n\n")
	case 3:
		// two overloads written on one source line (compact style): equal start lines
		w.f("    public Order find(String key) { return this.find(1); } public Order find(long key, int n) { this.count(); return null; }\n\n")
	}
	w.f("}\n")
	return jgen.File{Path: "com/acme/shop/OrderRepo.java", Text: w.b.String()}, methods
}

func utilClass(t *rapid.T) jgen.File {
	w := &jw{}
	w.f("package %s;\n\npublic class TextUtils {\n", shopPkg)
	n := rapid.IntRange(1, 3).Draw(t, "nUtilMethods")
	for i := 0; i < n; i++ {
		w.f("    public static String trim%d(String text) {\n        return text;\n    }\n\n", i)
	}
	w.f("}\n")
	return jgen.File{Path: "com/acme/shop/TextUtils.java", Text: w.b.String()}
}

// serviceClass: 2-4 methods with life-cycle names (create*/update*/...), long parameter
// lists sharing parameter names, return types that are project classes, null returns,
// @Nullable, overloads; every method calls the repository, so that one callee has several
// callers (reverse call graph) and the methods of one type differ in their calls.
func serviceClass(t *rapid.T, idx int, hasUtil bool) (jgen.File, []string) {
	name := "OrderService"
	if idx > 0 {
		name = fmt.Sprintf("Item%dService", idx)
	}
	w := &jw{}
	w.f("package %s;\n\nimport javax.annotation.Nullable;\n\npublic class %s {\n    private OrderRepo orderRepo;\n\n", shopPkg, name)
	n := rapid.IntRange(2, 5).Draw(t, "nServiceMethods")
	// two first words per service, none of them a stop word of the life-cycle detector:
	// with 4-5 methods both words usually name two methods or more
	verbPool := []string{"ship", "cancel", "refund", "archive"}
	v0 := rapid.IntRange(0, len(verbPool)-1).Draw(t, "verb0")
	verbs := []string{verbPool[v0], verbPool[(v0+1+rapid.IntRange(0, len(verbPool)-2).Draw(t, "verb1"))%len(verbPool)]}
	nouns := []string{"Order", "Item", "Batch"}
	used := map[string]bool{}
	var methods []string
	prev := ""
	for i := 0; i < n; i++ {
		mname := rapid.SampledFrom(verbs).Draw(t, "verb") + rapid.SampledFrom(nouns).Draw(t, "noun")
		overload := false
		if prev != "" && rapid.IntRange(0, 3).Draw(t, "overload") == 0 {
			mname, overload = prev, true
		}
		for used[mname] && !overload {
			mname += "X"
		}
		used[mname] = true
		prev = mname
		ret := rapid.SampledFrom([]string{"void", "Order", "Item", "int", "String", "Order"}).Draw(t, "ret")
		var ps [][2]string
		if rapid.IntRange(0, 2).Draw(t, "longList") > 0 {
			k := rapid.IntRange(4, 6).Draw(t, "nParams")
			ps = append(ps, longParams[:k]...)
		} else {
			ps = append(ps, longParams[:rapid.IntRange(0, 2).Draw(t, "nParamsShort")]...)
		}
		if overload {
			ps = append(ps, [2]string{"double", fmt.Sprintf("extra%d", i)})
		}
		if rapid.IntRange(0, 3).Draw(t, "nullableAnn") == 0 {
			w.f("    @Nullable\n")
		}
		w.f("    public %s %s(%s) {\n", ret, mname, paramList(ps))
		nCalls := rapid.IntRange(0, 3).Draw(t, "nCalls")
		for c := 0; c < nCalls; c++ {
			switch rapid.IntRange(0, 5).Draw(t, "callKind") {
			case 0, 1:
				w.f("        orderRepo.find(%d);\n", c)
			case 2:
				w.f("        orderRepo.count();\n")
			case 3:
				w.f("        orderRepo.save(new Order());\n")
			case 4:
				if hasUtil {
					w.f("        TextUtils.trim0(\"a\");\n")
				} else {
					w.f("        orderRepo.count();\n")
				}
			default:
				w.f("        this.%s();\n", mname)
			}
		}
		if ret != "void" && ret != "int" && rapid.IntRange(0, 2).Draw(t, "returnsNull") == 0 {
			w.f("        if (orderRepo == null) {\n            return null;\n        }\n")
		}
		w.b.WriteString(returnStmt(ret))
		w.f("    }\n\n")
		methods = append(methods, shopPkg+"."+name+"."+mname)
	}
	w.f("}\n")
	return jgen.File{Path: "com/acme/shop/" + name + ".java", Text: w.b.String()}, methods
}

func controllerClass(t *rapid.T, idx int, serviceMethods []string) (jgen.File, []string) {
	name := fmt.Sprintf("OrderCtl%d", idx)
	w := &jw{}
	w.f("package %s.web;\n\nimport org.springframework.web.bind.annotation.*;\nimport %s.OrderService;\n\n", shopPkg, shopPkg)
	w.b.WriteString(rapid.SampledFrom([]string{"@RestController\n", "@Controller\n"}).Draw(t, "ctlAnn"))
	if rapid.Bool().Draw(t, "hasBase") {
		w.f("@RequestMapping(\"%s\")\n", rapid.SampledFrom([]string{"/orders", "/api/v1"}).Draw(t, "base"))
	}
	w.f("public class %s {\n    private OrderService orderService;\n\n", name)
	n := rapid.IntRange(2, 4).Draw(t, "nHandlers")
	var methods []string
	for k := 0; k < n; k++ {
		verb := rapid.SampledFrom([]string{"Get", "Post", "Put", "Delete"}).Draw(t, "verb")
		w.f("    @%sMapping(\"/h%d\")\n    public String handle%d() {\n", verb, k, k)
		nc := rapid.IntRange(0, 2).Draw(t, "nCtlCalls")
		for c := 0; c < nc && len(serviceMethods) > 0; c++ {
			m := rapid.SampledFrom(serviceMethods).Draw(t, "svcMethod")
			if strings.Contains(m, ".OrderService.") {
				w.f("        orderService.%s();\n", m[strings.LastIndex(m, ".")+1:])
			}
		}
		w.f("        return \"x\";\n    }\n\n")
		methods = append(methods, shopPkg+".web."+name+fmt.Sprintf(".handle%d", k))
	}
	w.f("}\n")
	return jgen.File{Path: "com/acme/shop/web/" + name + ".java", Text: w.b.String()}, methods
}

// smellyClass: 2-4 findings per sized smell kind, with ties and without ties in Size.
func smellyClass(t *rapid.T, idx int) jgen.File {
	name := fmt.Sprintf("Big%d", idx)
	w := &jw{}
	w.f("package %s;\n\npublic class %s {\n", shopPkg, name)
	n := rapid.IntRange(2, 4).Draw(t, "nSmellyMethods")
	for i := 0; i < n; i++ {
		switch rapid.IntRange(0, 4).Draw(t, "smellKind") {
		case 0: // long method
			length := rapid.SampledFrom([]int{31, 33, 33, 36}).Draw(t, "methodLength")
			w.f("    public void longOne%d() {\n", i)
			for l := 0; l < length-1; l++ {
				w.f("        int v%d = %d;\n", l, l)
			}
			w.f("    }\n\n")
		case 1: // long parameter list
			k := rapid.IntRange(6, 7).Draw(t, "nManyParams")
			w.f("    public void manyParams%d(%s) {\n    }\n\n", i, paramList(longParams[:k]))
		case 2: // repeated ifs
			k := rapid.IntRange(8, 9).Draw(t, "nIfs")
			w.f("    public int manyIfs%d(int a) {\n", i)
			for l := 0; l < k; l++ {
				w.f("        if (a > %d) {\n            a++;\n        }\n", l)
			}
			w.f("        return a;\n    }\n\n")
		case 3: // complex condition
			w.f("    public int complex%d(int a) {\n        if (a > 1\n                && a < 9\n                && a != 3\n                && a != 4) {\n            a++;\n        }\n        return a;\n    }\n\n", i)
		default: // repeated switches
			k := rapid.IntRange(8, 9).Draw(t, "nSwitches")
			w.f("    public int manySwitches%d(int a) {\n", i)
			for l := 0; l < k; l++ {
				w.f("        switch (a) {\n            case %d:\n                a++;\n                break;\n            default:\n                break;\n        }\n", l)
			}
			w.f("        return a;\n    }\n\n")
		}
	}
	w.f("}\n")
	return jgen.File{Path: "com/acme/shop/" + name + ".java", Text: w.b.String()}
}

// testClass: 2-4 test methods showing (or not) the test smells; helpers of the same name
// with different parameters; @Test always comes first among the modifiers.
func testClass(t *rapid.T, idx int) jgen.File {
	name := fmt.Sprintf("Shop%dTest", idx)
	w := &jw{}
	w.f("package %s;\n\nimport org.junit.Test;\nimport org.junit.Ignore;\nimport static org.junit.Assert.assertEquals;\nimport static org.junit.Assert.assertTrue;\n\npublic class %s {\n", shopPkg, name)
	n := rapid.IntRange(2, 4).Draw(t, "nTests")
	for i := 0; i < n; i++ {
		switch kind := rapid.IntRange(0, 10).Draw(t, "testKind"); kind {
		case 0: // plain good test
			w.f("    @Test\n    public void good%d() {\n        OrderRepo repo = new OrderRepo();\n        assertEquals(1, repo.count());\n    }\n\n", i)
		case 1: // no assertion
			w.f("    @Test\n    public void unknown%d() {\n        OrderRepo repo = new OrderRepo();\n        repo.count();\n        repo.find(1);\n    }\n\n", i)
		case 2: // ignored
			w.f("    @Ignore\n    public void ignored%d() {\n        OrderRepo repo = new OrderRepo();\n        assertEquals(1, repo.count());\n    }\n\n", i)
		case 3: // empty
			w.f("    @Test\n    public void empty%d() {\n    }\n\n", i)
		case 4: // print
			w.f("    @Test\n    public void printing%d() {\n        OrderRepo repo = new OrderRepo();\n        System.out.println(\"x\");\n        assertEquals(1, repo.count());\n    }\n\n", i)
		case 5: // sleep
			w.f("    @Test\n    public void sleepy%d() throws Exception {\n        OrderRepo repo = new OrderRepo();\n        Thread.sleep(10);\n        assertEquals(1, repo.count());\n    }\n\n", i)
		case 6: // duplicate asserts
			w.f("    @Test\n    public void duplicated%d() {\n        OrderRepo repo = new OrderRepo();\n", i)
			for l := 0; l < 6; l++ {
				w.f("        assertEquals(%d, repo.count());\n", l)
			}
			w.f("    }\n\n")
		case 8, 9, 10: // several groups of five calls, a redundant assertion
			extraTestMethod(w, kind, i)
		default: // assertion in a helper of this class
			w.f("    @Test\n    public void viaHelper%d() {\n        OrderRepo repo = new OrderRepo();\n        repo.count();\n        helpIt(repo);\n    }\n\n", i)
		}
	}
	w.f("    private void helpIt(OrderRepo repo) {\n        assertEquals(1, repo.count());\n    }\n\n")
	if rapid.Bool().Draw(t, "helperOverload") {
		w.f("    private void helpIt(OrderRepo repo, int more) {\n        repo.count();\n    }\n\n")
	}
	w.f("}\n")
	return jgen.File{Path: "com/acme/shop/" + name + ".java", Text: w.b.String()}
}

func genJava(t *rapid.T) JavaCase {
	var c JavaCase
	var roots []string
	add := func(f jgen.File) {
		if errs := jgen.SyntaxErrors(f.Text); len(errs) > 0 {
			panic(fmt.Sprintf("c08: generator bug, %s is not valid Java: %v\n%s", f.Path, errs, f.Text))
		}
		c.Files = append(c.Files, f)
	}
	// the plain variant: the shop alone; the conventional-project generator adds units with
	// free-form bodies, interfaces, overloads and inheritance
	add(dataClass(t, "Order"))
	add(dataClass(t, "Item"))
	repo, repoMethods := repoClass(t)
	add(repo)
	roots = append(roots, repoMethods...)
	hasUtil := rapid.Bool().Draw(t, "hasUtil")
	if hasUtil {
		add(utilClass(t))
	}
	nSvc := rapid.IntRange(1, 2).Draw(t, "nServices")
	var svcMethods []string
	for i := 0; i < nSvc; i++ {
		f, ms := serviceClass(t, i, hasUtil)
		add(f)
		svcMethods = append(svcMethods, ms...)
	}
	roots = append(roots, svcMethods...)
	nCtl := rapid.IntRange(0, 2).Draw(t, "nControllers")
	for i := 0; i < nCtl; i++ {
		f, ms := controllerClass(t, i, svcMethods)
		add(f)
		roots = append(roots, ms...)
	}
	nBig := rapid.IntRange(0, 2).Draw(t, "nSmelly")
	for i := 0; i < nBig; i++ {
		add(smellyClass(t, i))
	}
	if rapid.Bool().Draw(t, "hasLazy") {
		add(jgen.File{Path: "com/acme/shop/Lazy.java", Text: "package " + shopPkg + ";\n\npublic class Lazy {\n}\n"})
	}
	nTests := rapid.IntRange(0, 2).Draw(t, "nTestFiles")
	for i := 0; i < nTests; i++ {
		add(testClass(t, i))
	}
	if rapid.IntRange(0, 2).Draw(t, "withConventionalUnits") > 0 {
		opts := jgen.Opts{Bodies: true, Interfaces: true, MaxUnits: 4, MaxMethods: 3, DupNames: true}
		// further statement and declaration forms of the conventional-project generator (no ground
		// truth is needed here: any valid source tree is an input)
		switch rapid.IntRange(0, 2).Draw(t, "conventionalRichness") {
		case 1:
			opts.Anon, opts.Wide, opts.RichDecl, opts.SharedMethodNames, opts.SuperCallsDeclared = true, true, true, true, true
			c.Rich = 1
		case 2:
			opts.Anon, opts.Wide, opts.RichDecl, opts.SharedMethodNames, opts.SuperCallsDeclared = true, true, true, true, true
			opts.ExtraImps, opts.UnqualifiedForeign, opts.WordNames, opts.ExoticNames, opts.Loops, opts.ScopedReuse, opts.NameReuse = true, true, true, true, true, true, true
			c.Rich = 2
		}
		p := jgen.GenProject(t, opts)
		for i, u := range p.Units {
			dup := false
			for _, f := range c.Files {
				if f.Path == p.Files[i].Path {
					dup = true
				}
			}
			if dup {
				continue
			}
			c.Files = append(c.Files, p.Files[i])
			for _, fn := range u.Funcs {
				if !fn.IsCtor {
					roots = append(roots, u.FullName()+"."+fn.Name)
				}
			}
		}
	}
	// collision shapes: types of one simple name in several packages, several implementations of
	// an interface, handlers with parameters, inheritance, nested and anonymous classes, a class
	// with twenty methods, an ignore list (c08_shapes_test.go)
	extras := genShopExtras(t, hasUtil)
	for _, f := range extras.files {
		add(f)
	}
	c.Ignore = extras.ignore
	// seventh seed batch: a hub (facade, registry) that calls more than twenty other classes of the tree, which
	// call each other in a chain: every step the hub also reaches through an earlier step is a connected call
	if rapid.IntRange(0, 3).Draw(t, "hubClass") == 3 {
		n := rapid.IntRange(21, 24).Draw(t, "hubCallees")
		var w jw
		w.f("package com.acme.hub;\n\npublic class Facade {\n")
		for k := 1; k <= n; k++ {
			w.f("    private Step%d step%d = new Step%d();\n", k, k, k)
		}
		w.f("\n    public void runAll() {\n")
		for k := 1; k <= n; k++ {
			w.f("        step%d.run();\n", k)
		}
		w.f("    }\n}\n")
		add(jgen.File{Path: "com/acme/hub/Facade.java", Text: w.b.String()})
		for k := 1; k <= n; k++ {
			var s jw
			s.f("package com.acme.hub;\n\npublic class Step%d {\n", k)
			if k < n {
				s.f("    private Step%d next = new Step%d();\n\n    public void run() {\n        next.run();\n    }\n}\n", k+1, k+1)
			} else {
				s.f("    public void run() {\n    }\n}\n")
			}
			add(jgen.File{Path: fmt.Sprintf("com/acme/hub/Step%d.java", k), Text: s.b.String()})
		}
		roots = append(roots, "com.acme.hub.Facade.runAll")
	}
	if len(extras.roots) > 0 && rapid.Bool().Draw(t, "rootsFromExtras") {
		roots = append(append([]string(nil), extras.roots...), roots...)
	} else {
		roots = append(roots, extras.roots...)
	}
	roots = dedupe(roots)
	nRoots := rapid.IntRange(1, 3).Draw(t, "nRoots")
	for i := 0; i < nRoots && len(roots) > 0; i++ {
		k := rapid.IntRange(0, len(roots)-1).Draw(t, "root")
		c.Roots = append(c.Roots, roots[k])
		roots = append(roots[:k:k], roots[k+1:]...)
	}
	return c
}

func dedupe(in []string) []string {
	seen := map[string]bool{}
	var out []string
	for _, s := range in {
		if !seen[s] {
			seen[s] = true
			out = append(out, s)
		}
	}
	return out
}

// ---------------------------------------------------------------------------------------
// canonical forms

// the smell kinds whose groups `coca bs -s type` sorts by Size (cmd/bs.go)
var sizedSmells = map[string]bool{"largeClass": true, "repeatedSwitches": true, "longParameterList": true, "longMethod": true, "dataClass": true}

func dropGraphSmell(in []bs_domain.BadSmellModel) []bs_domain.BadSmellModel {
	// third-party detector with state that grows across calls in one process (DESIGN.md 6, row 22)
	var out []bs_domain.BadSmellModel
	for _, s := range in {
		if s.Bs != "graphConnectedCall" {
			out = append(out, s)
		}
	}
	return out
}

func smellItems(in []bs_domain.BadSmellModel) []string {
	var out []string
	for _, s := range in {
		out = append(out, fmt.Sprintf("%s %s:%s %q size=%d", s.Bs, s.File, s.Line, s.Description, s.Size))
	}
	return out
}

// canonSmellGroups: the -s type form. Groups by kind (a JSON object: key order is not
// part of the report); sized kinds as sorted sequences, the others as multisets.
func canonSmellGroups(groups map[string][]bs_domain.BadSmellModel) string {
	var kinds []string
	for k := range groups {
		kinds = append(kinds, k)
	}
	sort.Strings(kinds)
	var lines []string
	for _, k := range kinds {
		items := smellItems(groups[k])
		if sizedSmells[k] {
			var keys []string
			for _, s := range groups[k] {
				keys = append(keys, fmt.Sprint(s.Size))
			}
			lines = append(lines, "["+k+" sorted by size]\n"+sortedRuns(items, keys))
		} else {
			lines = append(lines, "["+k+"]\n"+multiset(items))
		}
	}
	return strings.Join(lines, "\n")
}

func canonStringListMap(m map[string][]string) []string {
	var keys []string
	for k := range m {
		keys = append(keys, k)
	}
	sort.Strings(keys)
	var out []string
	for _, k := range keys {
		vs := append([]string(nil), m[k]...)
		sort.Strings(vs)
		out = append(out, fmt.Sprintf("%q: %q", k, vs))
	}
	return out
}

func canonEvaluate(m evaluator.EvaluateModel) string {
	var lines []string
	items := append([]string(nil), m.Nullable.Items...)
	sort.Strings(items)
	for _, it := range items {
		lines = append(lines, "nullable "+it)
	}
	for _, l := range canonStringListMap(m.ServiceSummary.LifecycleMap) {
		lines = append(lines, "lifecycle "+l)
	}
	for _, l := range canonStringListMap(m.ServiceSummary.ReturnTypeMap) {
		lines = append(lines, "returnType "+l)
	}
	rel := append([]string(nil), m.ServiceSummary.RelatedMethod...)
	sort.Strings(rel)
	lines = append(lines, fmt.Sprintf("relatedMethod %q", rel))
	s := m.Summary
	lines = append(lines, fmt.Sprintf("summary utils=%d classes=%d methods=%d normal=%d totalLength=%d static=%d lengthStdDev=%.6f numStdDev=%.6f",
		s.UtilsCount, s.ClassCount, s.MethodCount, s.NormalMethodCount, s.TotalMethodLength, s.StaticMethodCount, s.MethodLengthStdDeviation, s.MethodNumStdDeviation))
	return strings.Join(lines, "\n")
}

func canonCountMap(m map[string]int) string {
	var out []string
	for k, v := range m {
		out = append(out, fmt.Sprintf("%s = %d", k, v))
	}
	return multiset(out)
}

// canonPairs: a table printed through string_helper.SortWord. The statement frees ties in
// the sort key; the count is taken as the key, so the form accepts a table sorted by name
// as well as one sorted by count with ties in any order, and nothing else.
func canonPairs(pl string_helper.PairList) string {
	var items, keys []string
	for _, p := range pl {
		items = append(items, fmt.Sprintf("%s = %d", p.Key, p.Value))
		keys = append(keys, fmt.Sprint(p.Value))
	}
	return sortedRuns(items, keys)
}

func edgeMultiset(text, first string, attrs ...string) (string, error) {
	es, err := dot.ParseFlat(text, first, attrs...)
	if err != nil {
		return "", err
	}
	var list []string
	for _, e := range es {
		list = append(list, e.From+" -> "+e.To)
	}
	return multiset(list), nil
}

func mustEdges(kind, text, first string, attrs ...string) string {
	es, err := edgeMultiset(text, first, attrs...)
	if err != nil {
		// well-formedness is C03/C04's subject; compare the text line-wise as a multiset
		return "<" + kind + " not an edge list: " + err.Error() + ">\n" + multiset(strings.Split(text, "\n"))
	}
	return es
}

// modelReports: every report that is derived from a code model alone.
func modelReports(deps []core_domain.CodeDataStruct, identMap map[string]core_domain.CodeDataStruct, roots []string) []report {
	var out []report
	// reference counts
	out = append(out, guard("count", func() []report {
		callMap := count.BuildCallMap(deps)
		sorted := string_helper.SortWord(callMap)
		out := []report{{"count", js(sorted), canonCountMap(callMap)}, {"count-sorted-table", js(sorted), canonPairs(sorted)}}
		// `coca count -t 2` prints the first two rows of the table: as a collection they
		// must not depend on the run, whatever the table is sorted by
		if len(sorted) > 2 {
			var top []string
			for _, p := range sorted[:2] {
				top = append(top, fmt.Sprintf("%s = %d", p.Key, p.Value))
			}
			out = append(out, report{"count-top-2", js(sorted[:2]), multiset(top)})
		} else {
			out = append(out, report{"count-top-2", "", ""})
		}
		return out
	})...)
	// concept table
	out = append(out, guard("concept-table", func() []report {
		words := concept.NewConceptAnalyser().Analysis(&deps)
		return []report{{"concept-table", js(words), canonPairs(words)}}
	})...)
	// graphs
	for i, root := range roots {
		i, root := i, root
		out = append(out, guard(fmt.Sprintf("call-graph-%d", i), func() []report {
			text := call.NewCallGraph().Analysis(root, deps, false)
			return []report{{fmt.Sprintf("call-graph-%d", i), text, mustEdges("call graph", text, "digraph G {", "rankdir = LR;")}}
		})...)
		out = append(out, guard(fmt.Sprintf("call-graph-lookup-%d", i), func() []report {
			text := call.NewCallGraph().Analysis(root, deps, true)
			return []report{{fmt.Sprintf("call-graph-lookup-%d", i), text, mustEdges("call graph", text, "digraph G {", "rankdir = LR;")}}
		})...)
		out = append(out, guard(fmt.Sprintf("reverse-call-graph-%d", i), func() []report {
			var rmap map[string][]string
			text := rcall.NewRCallGraph().Analysis(root, deps, func(m map[string][]string) { rmap = m })
			rs := []report{{fmt.Sprintf("reverse-call-graph-%d", i), text, mustEdges("reverse call graph", text, "digraph G {")}}
			if i == 0 {
				rs = append(rs, report{"reverse-call-map", js(rmap), strings.Join(canonStringListMap(rmap), "\n")})
			}
			return rs
		})...)
	}
	// architecture
	out = append(out, archReports(deps, identMap)...)
	// visual
	out = append(out, guard("visual", func() []report {
		vis := visual.FromDeps(deps)
		var nodes, links []string
		for _, n := range vis.Nodes {
			nodes = append(nodes, fmt.Sprintf("node %s group=%d", n.ID, n.Group))
		}
		for _, l := range vis.Links {
			links = append(links, fmt.Sprintf("link %s -> %s value=%d", l.Source, l.Target, l.Value))
		}
		return []report{{"visual", js(vis), multiset(append(nodes, links...))}}
	})...)
	return out
}

func hasTestFiles(c JavaCase) bool {
	for _, f := range c.Files {
		if cocafile.JavaTestFileFilter(f.Path) {
			return true
		}
	}
	return false
}

func checkJava(c JavaCase) pbt.Verdict {
	root := cli.Scratch("c08-java-")
	defer os.RemoveAll(root)
	files := map[string]string{}
	for _, f := range c.Files {
		files[f.Path] = f.Text
	}
	cli.WriteTree(root, files)
	withTests := hasTestFiles(c)
	v := repeat("java", reps(c.Reps), func(rep int) []report {
		resetAll()
		var ident, deps []core_domain.CodeDataStruct
		var identMap map[string]core_domain.CodeDataStruct
		var diMap map[string]string
		// the pipeline of `coca analysis`
		out := guard("analysis", func() []report {
			iapp := javaapp.NewJavaIdentifierApp()
			ident = iapp.AnalysisPath(root)
			identMap = core_domain.BuildIdentifierMap(ident)
			diMap = core_domain.BuildDIMap(ident, identMap)
			full := javaapp.NewJavaFullApp()
			deps = full.AnalysisPath(root, ident)
			return []report{{"identifier-model", js(ident), canonTypes(ident)}, {"model", js(deps), canonTypes(deps)}}
		})
		if len(out) != 2 {
			return out // the passes themselves crashed: nothing to derive
		}

		// `coca bs` and `coca bs -s type`
		out = append(out, guard("bad-smells", func() []report {
			bsApp := bs.NewBadSmellApp()
			infos := bsApp.AnalysisPath(root)
			smells := dropGraphSmell(bsApp.IdentifyBadSmell(infos, nil))
			groups := bs_domain.SortSmellByType(append([]bs_domain.BadSmellModel(nil), smells...), func(k string) bool { return sizedSmells[k] })
			var rawGroups bytes.Buffer
			for _, k := range sortedKeys(groups) {
				rawGroups.WriteString(k + js(groups[k]))
			}
			out := []report{{"bad-smell-model", js(infos), canonTypes(infos)},
				{"bad-smells", js(smells), multiset(smellItems(smells))},
				{"bad-smells-by-type", rawGroups.String(), canonSmellGroups(groups)}}
			// the class lists the connected-call detector is fed with (the detector itself is the
			// third-party package left out above): per type, the project types it calls, a collection
			known := map[string]bool{}
			for _, n := range *infos {
				known[n.GetClassFullName()] = true
			}
			var called []string
			for _, n := range *infos {
				list := append([]string(nil), bs_domain.GetCalledClasses(n, known)...)
				sort.Strings(list)
				called = append(called, fmt.Sprintf("%s calls %q", n.GetClassFullName(), list))
			}
			out = append(out, report{"bad-smell-called-classes", "", multiset(called)})
			if len(c.Ignore) > 0 {
				// `coca bs -x kind1,kind2`: same analysis, some kinds left out
				kept := dropGraphSmell(bsApp.IdentifyBadSmell(infos, append([]string(nil), c.Ignore...)))
				out = append(out, report{"bad-smells-ignoring", js(kept), multiset(smellItems(kept))})
			}
			return out
		})...)

		// `coca tbs`
		if withTests {
			out = append(out, guard("test-smells", func() []report {
				tfiles := cocafile.GetJavaTestFiles(root)
				tiapp := javaapp.NewJavaIdentifierApp()
				tident := tiapp.AnalysisFiles(tfiles)
				tidentMap := core_domain.BuildIdentifierMap(tident)
				tfull := javaapp.NewJavaFullApp()
				tnodes := tfull.AnalysisFiles(tident, tfiles)
				tsmells := tbs.NewTbsApp().AnalysisPath(tnodes, tidentMap)
				var items []string
				for _, s := range tsmells {
					items = append(items, fmt.Sprintf("%s %s:%d %q", s.Type, s.FileName, s.Line, s.Description))
				}
				return []report{{"test-model", js(tnodes), canonTypes(tnodes)}, {"test-smells", js(tsmells), multiset(items)}}
			})...)
		}

		// `coca api`
		out = append(out, guard("api", func() []report {
			apis := new(api.JavaApiApp).AnalysisPath(root, deps, identMap, diMap)
			var apiItems []string
			for _, a := range apis {
				apiItems = append(apiItems, js(a))
			}
			text, counts := call.NewCallGraph().AnalysisByFiles(apis, deps, diMap)
			api_domain.SortAPIs(counts)
			var cItems, cKeys []string
			for _, ca := range counts {
				cItems = append(cItems, fmt.Sprintf("%d %s %s %s", ca.Size, ca.HTTPMethod, ca.URI, ca.Caller))
				cKeys = append(cKeys, fmt.Sprint(ca.Size))
			}
			return []report{{"api-list", js(apis), multiset(apiItems)},
				{"api-graph", text, mustEdges("api graph", text, "digraph G {")},
				{"api-sizes-sorted", js(counts), sortedRuns(cItems, cKeys)}}
		})...)

		// `coca evaluate`
		out = append(out, guard("evaluation", func() []report {
			ev := evaluate.NewEvaluateAnalyser().Analysis(deps, ident)
			return []report{{"evaluation", js(ev), canonEvaluate(ev)}}
		})...)

		return append(out, modelReports(deps, identMap, c.Roots)...)
	})
	if withTests {
		v.Classes = append(v.Classes, "java/with_test_files")
	}
	for _, f := range c.Files {
		if strings.Contains(f.Path, "Ctl") {
			v.Classes = append(v.Classes, "java/with_controller")
			break
		}
	}
	for _, mark := range [][2]string{{"/dto/Order.java", "java/simple_name_in_two_packages"}, {"/report/OrderService.java", "java/two_services_of_one_name"},
		{"/ship/SlowShipper.java", "java/interface_with_several_components"}, {"/ArchiveRepo.java", "java/subclass_calling_super"},
		{"/Jobs.java", "java/field_initialisers_anonymous_nested"}, {"/Huge0.java", "java/class_with_twenty_methods"}, {"/Huge1.java", "java/two_classes_with_twenty_methods"},
		{moduleRoot + "com/acme/shop/Order.java", "java/type_declared_in_two_source_roots"}, {moduleRoot + "com/acme/shop/OrderRepo.java", "java/repository_declared_in_two_source_roots"},
		{"/audit/AuditArchive.java", "java/imports_ending_in_one_another"}, {"/BulkService.java", "java/service_with_17_to_40_methods"}, {"/ShopBulkTest.java", "java/more_than_twenty_tests"}} {
		for _, f := range c.Files {
			if strings.HasSuffix(f.Path, mark[0]) {
				v.Classes = append(v.Classes, mark[1])
				break
			}
		}
	}
	if len(c.Ignore) > 0 {
		v.Classes = append(v.Classes, fmt.Sprintf("java/ignore_list_of_%d", len(c.Ignore)))
	}
	if c.Rich > 0 {
		v.Classes = append(v.Classes, fmt.Sprintf("java/conventional_units_richness_%d", c.Rich))
	}
	return v
}

func sortedKeys(m map[string][]bs_domain.BadSmellModel) []string {
	var ks []string
	for k := range m {
		ks = append(ks, k)
	}
	sort.Strings(ks)
	return ks
}

var _ = filepath.Join

func registerJava() {
	pbt.Register("java", 40, 40, genJava, checkJava)
}
