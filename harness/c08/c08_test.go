// C08 — identical input yields identical output on every run.
//
// The quantifier is over map-iteration schedules. Go re-randomises the start of every
// `range` over a map, so each repetition of the same call inside one process (and each new
// process) samples another schedule. Every sub-check builds an input whose map-driven
// collections are small, executes the same pipeline N times (reset hooks before every
// repetition: what survives from run to run is C07's subject, not C08's), reduces every
// result to the canonical form that the statement allows, and requires all repetitions to
// equal the first one. The un-canonicalised output of every repetition is hashed as well:
// the number of distinct raw outputs tells whether the schedule really varied.
package c08

import (
	"encoding/json"
	"fmt"
	"hash/fnv"
	"os"
	"sort"
	"strings"
	"testing"

	"github.com/modernizing/coca/pkg/application/api"
	"github.com/modernizing/coca/pkg/application/bs"
	"github.com/modernizing/coca/pkg/application/call"
	"github.com/modernizing/coca/pkg/application/concept"
	"github.com/modernizing/coca/pkg/application/evaluate/evaluator"
	"github.com/modernizing/coca/pkg/application/git"
	"github.com/modernizing/coca/pkg/application/rcall"
	"github.com/modernizing/coca/pkg/infrastructure/ast/ast_go"
	"github.com/modernizing/coca/pkg/infrastructure/ast/ast_java"
	"github.com/modernizing/coca/pkg/infrastructure/ast/ast_java/ast_api_java"
	"github.com/modernizing/coca/pkg/infrastructure/ast/ast_java/java_identify"
	"github.com/modernizing/coca/pkg/infrastructure/ast/bs_java"

	"verif/internal/jgen"
	"verif/internal/pbt"
)

// repetitions of an in-process pipeline / of a CLI command
// A pinned case may carry its own number (Reps): a nondeterministic failure shows up on a
// replay only with some probability per repetition, so pinned cases repeat more often.
// A saved case is replayed with the thorough number whatever the tier, for the same reason.
func reps(override int) int {
	if override > 0 {
		return override
	}
	if pbt.Tier() == "thorough" || os.Getenv("VERIF_REPLAY") != "" {
		return 32
	}
	return 8
}

func cliReps(override int) int {
	if override > 0 {
		return override
	}
	if pbt.Tier() == "thorough" || os.Getenv("VERIF_REPLAY") != "" {
		return 8
	}
	return 3
}

// resetAll puts every stateful package back to the state of a fresh process.
func resetAll() {
	ast_java.VerifResetAstJava()
	java_identify.VerifResetJavaIdentify()
	ast_api_java.VerifResetAstApiJava()
	bs_java.VerifResetBsJava()
	bs.VerifResetBs()
	api.VerifResetApi()
	call.VerifResetCall()
	rcall.VerifResetRcall()
	evaluator.VerifResetEvaluator()
	concept.VerifResetConcept()
	git.VerifResetGit()
	ast_go.VerifResetAstGo()
}

// report is one output of one repetition: raw is the output as the tool produced it (only
// hashed, to count schedules), canon is the form in which the statement wants it equal.
type report struct {
	name  string
	raw   string
	canon string
}

func js(v interface{}) string {
	raw, err := json.Marshal(v)
	if err != nil {
		return "<unserialisable: " + err.Error() + ">"
	}
	return string(raw)
}

// multiset renders a collection without order: one item per line, sorted.
func multiset(items []string) string {
	out := append([]string(nil), items...)
	sort.Strings(out)
	return strings.Join(out, "\n")
}

// sortedRuns renders a sequence that was produced through a sort: maximal runs of
// consecutive items with the same sort key become multisets (ties are free), the sequence
// of runs is kept. If the tool stops sorting, the runs follow map order and differ from
// repetition to repetition.
func sortedRuns(items []string, keys []string) string {
	var lines []string
	for i := 0; i < len(items); {
		j := i
		for j < len(items) && keys[j] == keys[i] {
			j++
		}
		run := append([]string(nil), items[i:j]...)
		sort.Strings(run)
		lines = append(lines, "key="+keys[i]+" {"+strings.Join(run, " | ")+"}")
		i = j
	}
	return strings.Join(lines, "\n")
}

// canonJSON re-orders, in a decoded JSON value, every array stored under the key
// "Functions" (the order of functions inside a type is free; it holds for types, for the
// bad-smell pass's types and for anonymous inner types of a function alike).
func canonJSON(v interface{}) interface{} {
	switch x := v.(type) {
	case map[string]interface{}:
		for k, e := range x {
			x[k] = canonJSON(e)
		}
		if fs, ok := x["Functions"].([]interface{}); ok {
			keyed := make([]string, len(fs))
			for i, f := range fs {
				keyed[i] = js(f) // maps are marshalled with sorted keys
			}
			sort.Strings(keyed)
			sorted := make([]interface{}, len(keyed))
			for i, s := range keyed {
				sorted[i] = json.RawMessage(s)
			}
			x["Functions"] = sorted
		}
		return x
	case []interface{}:
		for i, e := range x {
			x[i] = canonJSON(e)
		}
		return x
	}
	return v
}

// canonTypes renders a code model: a collection of types, each with its functions sorted.
func canonTypes(model interface{}) string {
	var generic []interface{}
	raw := js(model)
	if raw == "null" {
		return ""
	}
	if err := json.Unmarshal([]byte(raw), &generic); err != nil {
		return "<not a list: " + raw + ">"
	}
	var items []string
	for _, e := range generic {
		items = append(items, js(canonJSON(e)))
	}
	return multiset(items)
}

func hashOf(s string) uint64 {
	h := fnv.New64a()
	h.Write([]byte(s))
	return h.Sum64()
}

func bucket(k int) string {
	if k >= 4 {
		return "4+"
	}
	return fmt.Sprint(k)
}

// lineDiff shows what two canonical forms (one item per line) do not share.
func lineDiff(a, b string) string {
	count := map[string]int{}
	for _, l := range strings.Split(a, "\n") {
		count[l]++
	}
	var onlyB []string
	for _, l := range strings.Split(b, "\n") {
		if count[l] > 0 {
			count[l]--
		} else {
			onlyB = append(onlyB, l)
		}
	}
	var onlyA []string
	for _, l := range strings.Split(a, "\n") {
		if count[l] > 0 {
			count[l]--
			onlyA = append(onlyA, l)
		}
	}
	sort.Strings(onlyA)
	sort.Strings(onlyB)
	clip := func(ls []string) string {
		s := strings.Join(ls, "\n      ")
		if len(s) > 3000 {
			s = s[:3000] + "…"
		}
		return s
	}
	if len(onlyA) == 0 && len(onlyB) == 0 {
		return "  same lines in another order:\n    first: " + clip(strings.Split(a, "\n")) + "\n    other: " + clip(strings.Split(b, "\n"))
	}
	return "  only in the first repetition:\n      " + clip(onlyA) + "\n  only in the other repetition:\n      " + clip(onlyB)
}

// guard runs one group of reports; a panic of the code under test becomes a report of its
// own (the same panic on every repetition is C09's subject, not nondeterminism; a panic on
// some repetitions only differs from the first repetition like any other output).
func guard(name string, f func() []report) []report {
	var out []report
	if p := pbt.Call(func() { out = f() }); p != "" {
		first := strings.SplitN(p, "\n", 2)[0]
		pbt.Count("panicked/"+name, 1)
		return []report{{name + " (panicked)", first, first}}
	}
	return out
}

func names(rs []report) string {
	var out []string
	for _, r := range rs {
		out = append(out, r.name)
	}
	return strings.Join(out, ", ")
}

// repeat executes run n times and judges the repetitions.
func repeat(sub string, n int, run func(rep int) []report) pbt.Verdict {
	var all [][]report
	for k := 0; k < n; k++ {
		all = append(all, run(k))
	}
	for k := range all {
		if names(all[k]) != names(all[0]) {
			return pbt.Fail("%s: repetition %d of %d of the same call on the same input did not produce the same reports as the first one (a panic on some runs only):\n  first: %s\n  other: %s", sub, k+1, n, names(all[0]), names(all[k]))
		}
	}
	v := pbt.Verdict{}
	if os.Getenv("C08_DUMP") != "" { // debugging aid: show the canonical forms of the first repetition
		for _, r := range all[0] {
			fmt.Printf("C08DUMP %s %s\n%s\n", sub, r.name, r.canon)
		}
	}
	for i, first := range all[0] {
		rawSeen := map[uint64]bool{}
		differ, other := 0, -1
		for k := range all {
			rawSeen[hashOf(all[k][i].raw)] = true
			if all[k][i].canon != first.canon {
				differ++
				if other < 0 {
					other = k
				}
			}
		}
		if differ > 0 {
			return pbt.Fail("%s: report %q is not the same on every run of the same call on the same input: %d of the %d repetitions differ from the first one (canonical form: orders the statement leaves free are already removed); first repetition against repetition %d:\n%s",
				sub, first.name, differ, n, other+1, lineDiff(first.canon, all[other][i].canon))
		}
		k := len(rawSeen)
		if k >= 2 {
			v.NonTrivial = true
		}
		v.Classes = append(v.Classes, first.name+"/raw_orders="+bucket(k))
		pbt.Count(sub+"/"+first.name+"/distinct_raw_outputs_total", k)
		pbt.Count(sub+"/"+first.name+"/cases", 1)
	}
	return v
}

func init() {
	pbt.SetProperty("C08")
	jgen.SetExcluded(pbt.Excluded)
	registerJava()
	registerGraphs()
	registerGit()
	registerMisc()
	registerCli()
	registerGoProject()
	registerClocFiles()
	describe()
}

func TestProp(t *testing.T) { pbt.Main(t) }

func TestReplay(t *testing.T) { pbt.Replay(t) }
