package c08

import (
	"encoding/csv"
	"encoding/json"
	"fmt"
	"os"
	"path/filepath"
	"regexp"
	"sort"
	"strings"
	"sync"

	"github.com/awalterschulze/gographviz"
	"github.com/modernizing/coca/pkg/application/evaluate/evaluator"
	"github.com/modernizing/coca/pkg/application/git"
	"github.com/modernizing/coca/pkg/application/tbs"
	"github.com/modernizing/coca/pkg/application/visual"
	"github.com/modernizing/coca/pkg/domain/api_domain"
	"github.com/modernizing/coca/pkg/domain/bs_domain"
	"pgregory.net/rapid"

	"verif/internal/cli"
	"verif/internal/ggen"
	"verif/internal/jgen"
	"verif/internal/pbt"
)

// CliCase: a source tree (Java sources plus files of other languages in 2-4 top-level
// directories) and a git history; every command is run K times as a fresh process.
type CliCase struct {
	Java    JavaCase     `json:"java"`
	Others  []jgen.File  `json:"others"`
	History ggen.History `json:"history"`
	Reps    int          `json:"reps,omitempty"`
	// option variants (zero values = the command lines of the first version of this check)
	Top        int  `json:"top,omitempty"`        // `coca count -t N`
	GitSize    int  `json:"gitSize,omitempty"`    // `coca git ... -f -s N`: every table cut at N rows
	ApiVariant int  `json:"apiVariant,omitempty"` // 0 `-f -c -s`, 1 `-f -c -r com.acme.`, 2 `-f -c -s -a <prefix>`
	Lookup     bool `json:"lookup,omitempty"`     // `coca call -l`
	TbsSort    bool `json:"tbsSort,omitempty"`    // `coca tbs -s`
	GitOnly    bool `json:"gitOnly,omitempty"`    // pinned cases: only the `coca git` commands
	// variants added later (zero values = the command lines before)
	GoFiles  []jgen.File `json:"goFiles,omitempty"`  // a Go project under src/goproj: `coca_go analysis -p src/goproj` (godeps.json)
	Remove   bool        `json:"remove,omitempty"`   // `coca call -r com.acme.` / `coca rcall -r com.acme.`
	LongOpts bool        `json:"longOpts,omitempty"` // long option spellings: --path=src, --sort=type, --ignore=..., --top=N, --className=...
}

func genCli(t *rapid.T) CliCase {
	c := CliCase{Java: genJava(t)}
	// other top-level directories for the per-directory line counts
	pool := []jgen.File{
		{Path: "docs/guide.md", Text: "# Guide\n\ntext\nmore text\n"},
		{Path: "docs/notes.md", Text: "# Notes\n\nline\n"},
		{Path: "scripts/tool.go", Text: "package main\n\nfunc main() {\n\tprintln(\"x\")\n}\n"},
		{Path: "scripts/run.py", Text: "import sys\n\nprint(sys.argv)\n"},
		{Path: "web/app.js", Text: "function f() {\n  return 1;\n}\n"},
		{Path: "web/util.go", Text: "package web\n\nfunc F() int {\n\treturn 1\n}\n"},
	}
	n := rapid.IntRange(1, len(pool)).Draw(t, "nOthers")
	perm := rapid.Permutation(pool).Draw(t, "others")
	c.Others = perm[:n]
	sort.Slice(c.Others, func(i, j int) bool { return c.Others[i].Path < c.Others[j].Path })
	if rapid.IntRange(0, 2).Draw(t, "bulkHistory") == 2 {
		c.History = genBulkHistory(t)
	} else {
		c.History = ggen.Gen(t, ggen.Options{MaxCommits: 5, MaxPaths: 4, PlainSubjects: true})
	}
	c.Top = rapid.IntRange(0, 3).Draw(t, "countTop")
	c.GitSize = rapid.IntRange(0, 3).Draw(t, "gitSize")
	c.ApiVariant = rapid.IntRange(0, 2).Draw(t, "apiVariant")
	c.Lookup = rapid.Bool().Draw(t, "callLookup")
	c.TbsSort = rapid.Bool().Draw(t, "tbsSort")
	if rapid.Bool().Draw(t, "withGoProject") {
		c.GoFiles = genGoProject(t).Files
	}
	c.Remove = rapid.Bool().Draw(t, "removePackage")
	c.LongOpts = rapid.Bool().Draw(t, "longOpts")
	return c
}

var timingLine = regexp.MustCompile(`(?i)^(app )?elapsed|^profile: |took [0-9.]+ ?(ns|µs|ms|s)\b`)

func stripTiming(out string) string {
	var keep []string
	for _, l := range strings.Split(out, "\n") {
		if timingLine.MatchString(strings.TrimSpace(l)) {
			continue
		}
		keep = append(keep, l)
	}
	return strings.Join(keep, "\n")
}

// tableRows extracts the cells of the body rows of the tables coca prints.
func tableRows(out string) [][]string {
	var rows [][]string
	for _, l := range strings.Split(out, "\n") {
		l = strings.TrimSpace(l)
		if !strings.HasPrefix(l, "|") || strings.HasPrefix(l, "|--") || strings.HasPrefix(l, "|-") {
			continue
		}
		cells := strings.Split(strings.Trim(l, "|"), "|")
		for i := range cells {
			cells[i] = strings.TrimSpace(cells[i])
		}
		rows = append(rows, cells)
	}
	if len(rows) > 0 {
		rows = rows[1:] // header
	}
	return rows
}

func rowsSortedBy(rows [][]string, keyCol int) string {
	var items, keys []string
	for _, r := range rows {
		items = append(items, strings.Join(r, " ; "))
		k := ""
		if keyCol < len(r) {
			k = r[keyCol]
		}
		keys = append(keys, k)
	}
	return sortedRuns(items, keys)
}

func rowsAsMultiset(rows [][]string) string {
	var items []string
	for _, r := range rows {
		items = append(items, strings.Join(r, " ; "))
	}
	return multiset(items)
}

type cliRun struct {
	root         string
	reports      []report
	harnessPanic string
}

// at most six coca processes at a time per test process (sixteen shards run side by side)
var cocaSlots = make(chan struct{}, 6)

func (r *cliRun) coca(cwd string, env []string, args ...string) string {
	return r.run("coca", cwd, env, args...)
}

func (r *cliRun) run(binary, cwd string, env []string, args ...string) string {
	cocaSlots <- struct{}{}
	res, err := cli.Run(binary, cwd, env, args...)
	<-cocaSlots
	if err != nil {
		panic("c08: cannot run the " + binary + " binary: " + err.Error())
	}
	if res.TimedOut {
		panic("c08: " + binary + " " + strings.Join(args, " ") + " timed out")
	}
	return fmt.Sprintf("exit=%d\n", res.ExitCode) + stripTiming(res.Stdout)
}

func (r *cliRun) file(name string) (string, bool) {
	data, err := os.ReadFile(filepath.Join(r.root, "coca_reporter", name))
	if err != nil {
		return "<no " + name + ">", false
	}
	return string(data), true
}

func (r *cliRun) add(name, raw, canon string) {
	r.reports = append(r.reports, report{name, raw, canon})
}

func (r *cliRun) jsonFile(name, file string, canon func(data string) string) {
	data, ok := r.file(file)
	if !ok {
		r.add(name, data, data)
		return
	}
	r.add(name, data, canon(data))
}

func canonDotText(text string) string {
	ast, err := gographviz.ParseString(text)
	if err != nil {
		return "<not DOT: " + err.Error() + ">\n" + multiset(strings.Split(text, "\n"))
	}
	g := gographviz.NewGraph()
	if err := gographviz.Analyse(ast, g); err != nil {
		return "<not DOT: " + err.Error() + ">\n" + multiset(strings.Split(text, "\n"))
	}
	return canonDot(g)
}

func canonCsvRows(data string) string {
	recs, err := csv.NewReader(strings.NewReader(data)).ReadAll()
	if err != nil || len(recs) == 0 {
		return "<not CSV>\n" + multiset(strings.Split(data, "\n"))
	}
	header := recs[0]
	var rows []string
	for _, rec := range recs[1:] {
		var cells []string
		for i, v := range rec {
			col := fmt.Sprintf("col%d", i)
			if i < len(header) {
				col = header[i]
			}
			if i < 2 {
				continue
			}
			cells = append(cells, col+"="+v)
		}
		sort.Strings(cells) // the column order follows the line counter's own language order
		lead := rec
		if len(lead) > 2 {
			lead = lead[:2]
		}
		rows = append(rows, strings.Join(lead, ",")+" "+strings.Join(cells, " "))
	}
	cols := append([]string(nil), header...)
	if len(cols) > 2 {
		sort.Strings(cols[2:])
	}
	return "header " + strings.Join(cols, ",") + "\n" + multiset(rows)
}

func decode(data string) interface{} {
	var v interface{}
	if err := json.Unmarshal([]byte(data), &v); err != nil {
		return "<not JSON: " + data + ">"
	}
	return v
}

func canonModelFile(data string) string {
	var generic []interface{}
	if err := json.Unmarshal([]byte(data), &generic); err != nil {
		return "<not a JSON list>\n" + data
	}
	return canonTypes(generic)
}

// Every coca process spends about 0.3 s stopping its CPU profiler, whatever it did. The
// commands of one run that only read the reports of `coca analysis` therefore run side by
// side (they write different files), and the K runs use K copies of the tree side by side.
func parallel(groups []func(r *cliRun), root string) []report {
	parts := make([]*cliRun, len(groups))
	var wg sync.WaitGroup
	for i, g := range groups {
		parts[i] = &cliRun{root: root}
		wg.Add(1)
		go func(i int, g func(r *cliRun)) {
			defer wg.Done()
			if p := pbt.Call(func() { g(parts[i]) }); p != "" {
				parts[i].harnessPanic = p
			}
		}(i, g)
	}
	wg.Wait()
	var out []report
	for _, p := range parts {
		if p.harnessPanic != "" {
			panic(p.harnessPanic)
		}
		out = append(out, p.reports...)
	}
	return out
}

// oneCliRun executes the command sequence once in root (which holds src/), from an empty
// report directory.
func oneCliRun(root string, c CliCase) []report {
	r := &cliRun{root: root}
	_ = os.RemoveAll(filepath.Join(root, "coca_reporter"))
	withTests := hasTestFiles(c.Java)

	// opt picks the spelling of an option with a value: `-p src` or `--path=src`
	opt := func(short, long, value string) []string {
		if c.LongOpts {
			return []string{"--" + long + "=" + value}
		}
		return []string{"-" + short, value}
	}
	cmdline := func(parts ...[]string) []string {
		var out []string
		for _, p := range parts {
			out = append(out, p...)
		}
		return out
	}
	out := r.coca(root, nil, cmdline([]string{"analysis"}, opt("p", "path", "src"))...)
	r.add("analysis/stdout", out, multiset(strings.Split(out, "\n")))
	r.jsonFile("analysis/identify.json", "identify.json", canonModelFile)
	r.jsonFile("analysis/deps.json", "deps.json", canonModelFile)

	groups := []func(r *cliRun){
		func(r *cliRun) {
			r.coca(root, nil, cmdline([]string{"bs"}, opt("p", "path", "src"), opt("s", "sort", "type"))...)
			// the code model of the bad-smell pass
			r.jsonFile("bs/nodeInfos.json", "nodeInfos.json", canonModelFile)
			r.jsonFile("bs -s type/bs.json", "bs.json", func(data string) string {
				var groups map[string][]bs_domain.BadSmellModel
				if err := json.Unmarshal([]byte(data), &groups); err != nil {
					return "<unexpected bs.json>\n" + data
				}
				return canonSmellGroups(groups)
			})
			if len(c.Java.Ignore) > 0 {
				// the plain list with some kinds ignored (same report file: one run after the other)
				r.coca(root, nil, cmdline([]string{"bs"}, opt("p", "path", "src"), opt("x", "ignore", joinIgnore(c.Java.Ignore)))...)
				r.jsonFile("bs -x/bs.json", "bs.json", func(data string) string {
					var list []bs_domain.BadSmellModel
					if err := json.Unmarshal([]byte(data), &list); err != nil {
						return "<unexpected bs.json>\n" + data
					}
					return multiset(smellItems(list))
				})
			}
		},
		func(r *cliRun) {
			args := []string{"count"}
			if c.Top > 0 {
				// the first N rows of the table: a collection that must not depend on the run
				args = append(args, opt("t", "top", fmt.Sprint(c.Top))...)
			}
			out := r.coca(root, nil, args...)
			r.add("count/stdout", out, rowsSortedBy(tableRows(out), 0))
		},
		func(r *cliRun) {
			out := r.coca(root, nil, "evaluate")
			var evRows []string
			for _, row := range tableRows(out) {
				evRows = append(evRows, strings.Join(row, " ; "))
			}
			r.add("evaluate/stdout", out, strings.Join(evRows, "\n"))
			r.jsonFile("evaluate/evaluate.json", "evaluate.json", func(data string) string {
				var m evaluator.EvaluateModel
				if err := json.Unmarshal([]byte(data), &m); err != nil {
					return "<unexpected evaluate.json>\n" + data
				}
				return canonEvaluate(m)
			})
		},
		func(r *cliRun) {
			out := r.coca(root, nil, "concept")
			r.add("concept/stdout", out, rowsSortedBy(tableRows(out), 1))
		},
		func(r *cliRun) {
			r.coca(root, nil, "cloc", "src", "--by-directory")
			r.jsonFile("cloc --by-directory/cloc.csv", "cloc.csv", canonCsvRows)
		},
		func(r *cliRun) {
			args := []string{"api", "-p", "src", "-f", "-c", "-s"}
			switch c.ApiVariant {
			case 1:
				args = []string{"api", "-p", "src", "-f", "-c", "-r", "com.acme."}
			case 2:
				args = append(args, "-a", "/h")
			}
			out := r.coca(root, nil, args...)
			if c.ApiVariant == 1 {
				r.add("api -c -s/stdout", out, rowsAsMultiset(tableRows(out))) // not sorted: a collection
			} else {
				r.add("api -c -s/stdout", out, rowsSortedBy(tableRows(out), 0))
			}
			r.jsonFile("api/api.csv", "api.csv", func(data string) string {
				lines := strings.Split(strings.TrimSpace(data), "\n")
				if c.ApiVariant == 1 || len(lines) < 2 {
					return multiset(lines)
				}
				var items, keys []string
				for _, l := range lines[1:] {
					items = append(items, l)
					keys = append(keys, strings.SplitN(l, ",", 2)[0])
				}
				return lines[0] + "\n" + sortedRuns(items, keys)
			})
			r.jsonFile("api/apis.json", "apis.json", func(data string) string {
				var list []api_domain.RestAPI
				if err := json.Unmarshal([]byte(data), &list); err != nil {
					return "<unexpected apis.json>\n" + data
				}
				var items []string
				for _, a := range list {
					items = append(items, js(a))
				}
				return multiset(items)
			})
			r.jsonFile("api/api.dot", "api.dot", func(data string) string { return mustEdges("api graph", data, "digraph G {") })
		},
		func(r *cliRun) {
			r.coca(root, nil, "arch", "-v")
			r.jsonFile("arch/arch.dot", "arch.dot", canonDotText)
			r.jsonFile("arch -v/visual.json", "visual.json", func(data string) string {
				var vis visual.DData
				if err := json.Unmarshal([]byte(data), &vis); err != nil {
					return "<unexpected visual.json>\n" + data
				}
				var items []string
				for _, n := range vis.Nodes {
					items = append(items, fmt.Sprintf("node %s group=%d", n.ID, n.Group))
				}
				for _, l := range vis.Links {
					items = append(items, fmt.Sprintf("link %s -> %s value=%d", l.Source, l.Target, l.Value))
				}
				return multiset(items)
			})
			// merged by package, only the nodes of the shop (same report file: one run after the other)
			r.coca(root, nil, "arch", "-P", "-x", "com.acme")
			r.jsonFile("arch -P -x/arch.dot", "arch.dot", canonDotText)
			r.coca(root, nil, "arch", "-H")
			r.jsonFile("arch -H/arch.dot", "arch.dot", canonDotText)
		},
	}
	if withTests {
		groups = append(groups, func(r *cliRun) {
			args := cmdline([]string{"tbs"}, opt("p", "path", "src"))
			if c.TbsSort && c.LongOpts {
				args = append(args, "--sort")
			} else if c.TbsSort {
				args = append(args, "-s")
			}
			out := r.coca(root, nil, args...)
			r.add("tbs/stdout", out, rowsAsMultiset(tableRows(out)))
			r.jsonFile("tbs/tbs.json", "tbs.json", func(data string) string {
				var list []tbs.TestBadSmell
				if c.TbsSort {
					// -s: grouped by type (a JSON object); the groups are collections
					var groups map[string][]tbs.TestBadSmell
					if err := json.Unmarshal([]byte(data), &groups); err != nil {
						return "<unexpected tbs.json>\n" + data
					}
					var kinds []string
					for k := range groups {
						kinds = append(kinds, k)
					}
					sort.Strings(kinds)
					for _, k := range kinds {
						for _, s := range groups[k] {
							s.Type = "[" + k + "] " + s.Type
							list = append(list, s)
						}
					}
				} else if err := json.Unmarshal([]byte(data), &list); err != nil {
					return "<unexpected tbs.json>\n" + data
				}
				var items []string
				for _, s := range list {
					items = append(items, fmt.Sprintf("%s %s:%d %q", s.Type, s.FileName, s.Line, s.Description))
				}
				return multiset(items)
			})
			r.jsonFile("tbs/tdeps.json", "tdeps.json", canonModelFile)
		})
	}
	if len(c.Java.Roots) > 0 {
		rootMethod := c.Java.Roots[0]
		groups = append(groups, func(r *cliRun) {
			args := cmdline([]string{"call"}, opt("c", "className", rootMethod))
			if c.Lookup && c.LongOpts {
				args = append(args, "--lookup")
			} else if c.Lookup {
				args = append(args, "-l")
			}
			if c.Remove {
				// the package prefix is cut out of the labels of the graph
				args = append(args, opt("r", "remove", "com.acme.")...)
			}
			r.coca(root, nil, args...)
			r.jsonFile("call/call.dot", "call.dot", func(data string) string {
				return mustEdges("call graph", data, "digraph G {", "rankdir = LR;")
			})
		}, func(r *cliRun) {
			args := cmdline([]string{"rcall"}, opt("c", "className", rootMethod))
			if c.Remove {
				args = append(args, opt("r", "remove", "com.acme.")...)
			}
			r.coca(root, nil, args...)
			r.jsonFile("rcall/rcall.dot", "rcall.dot", func(data string) string {
				return mustEdges("reverse call graph", data, "digraph G {")
			})
			r.jsonFile("rcall/rcallmap.json", "rcallmap.json", func(data string) string {
				var m map[string][]string
				if err := json.Unmarshal([]byte(data), &m); err != nil {
					return "<unexpected rcallmap.json>\n" + data
				}
				return strings.Join(canonStringListMap(m), "\n")
			})
		})
	}
	if len(c.GoFiles) > 0 {
		// the Go plug-in on the Go project of the case (its reports: godeps.json, members.json)
		groups = append(groups, func(r *cliRun) {
			out := r.run("coca_go", root, nil, cmdline([]string{"analysis"}, opt("p", "path", "src/goproj"))...)
			r.add("coca_go analysis/stdout", out, multiset(strings.Split(out, "\n")))
			r.jsonFile("coca_go analysis/godeps.json", "godeps.json", canonModelFile)
		})
	}
	return append(r.reports, parallel(groups, root)...)
}

// lastTableBody: `coca git` renders one growing table once per flag, one rendering right
// after the other; the body of the last rendering holds the rows of all flags.
func lastTableBody(out string) [][]string {
	var body [][]string
	for _, l := range strings.Split(out, "\n") {
		t := strings.TrimSpace(l)
		if !strings.HasPrefix(t, "|") {
			continue
		}
		if strings.HasPrefix(t, "|-") {
			body = nil // a separator line: what follows is the body of a newer rendering
			continue
		}
		cells := strings.Split(strings.Trim(t, "|"), "|")
		for i := range cells {
			cells[i] = strings.TrimSpace(cells[i])
		}
		body = append(body, cells)
	}
	return body
}

// gitCliRun: `coca git` in the repository of the case.
func gitCliRun(repo *ggen.Repo, c CliCase) []report {
	r := &cliRun{root: repo.Dir}
	env := ggen.HermeticEnv(repo.Home)
	_ = os.RemoveAll(filepath.Join(repo.Dir, "coca_reporter"))
	defer os.RemoveAll(filepath.Join(repo.Dir, "coca_reporter"))
	// -m prints the change-log sections, -t the team table
	// -f -s N cuts every table at N rows: the rows shown are a collection that must not depend on the run
	var cut []string
	if c.GitSize > 0 {
		cut = []string{"-f", "-s", fmt.Sprint(c.GitSize)}
	}
	out := r.coca(repo.Dir, env, append([]string{"git", "-m", "-t"}, cut...)...)
	text := out
	if i := strings.Index(text, "\n"); i >= 0 {
		text = text[i+1:] // the exit= line
	}
	var before []string // the lines before the table
	for _, l := range strings.SplitAfter(text, "\n") {
		if strings.HasPrefix(strings.TrimSpace(l), "|") {
			break
		}
		before = append(before, l)
	}
	text = strings.Join(before, "")
	truncated := false
	for _, sec := range strings.Split(text, "=====================\n") {
		if strings.Count(sec, "\n") >= 12 {
			truncated = true // ten lines kept out of more
		}
	}
	if truncated {
		// the ten lines kept of a longer section: a collection that must not depend on the run
		r.add("git -m/stdout", text, "cut sections\n"+multiset(strings.Split(strings.TrimSpace(text), "\n")))
	} else {
		r.add("git -m/stdout", text, canonChangeLogText(text))
	}
	rows := lastTableBody(out)
	r.add("git -t/stdout", out, rowsSortedBy(rows, 1))
	r.jsonFile("git/commits.json", "commits.json", func(data string) string {
		var msgs []git.CommitMessage
		if err := json.Unmarshal([]byte(data), &msgs); err != nil {
			return "<unexpected commits.json>\n" + data
		}
		return canonCommits(msgs)
	})
	// -b prints four fixed rows, -o appends the author rows to the same table
	// -a (only with the option variants: first version of the check did not run it) appends the
	// code-age rows (name, months since the first commit): the months depend on the clock, the
	// names shown - all of them, or the N oldest after the cut - are a collection that does not
	args := []string{"git", "-b", "-o"}
	if c.GitSize > 0 {
		args = []string{"git", "-b", "-a", "-o"}
	}
	out = r.coca(repo.Dir, env, append(args, cut...)...)
	rows = lastTableBody(out)
	var basic, aged []string
	var authors [][]string
	for i, row := range rows {
		switch {
		case i < 4:
			basic = append(basic, strings.Join(row, " ; "))
		case len(row) == 2:
			aged = append(aged, row[0])
		default:
			authors = append(authors, row)
		}
	}
	r.add("git -b/stdout", out, strings.Join(basic, "\n"))
	r.add("git -o/stdout", out, rowsSortedBy(authors, 1))
	if c.GitSize > 0 {
		r.add("git -a/stdout names", strings.Join(aged, "\n"), multiset(aged))
	}
	return r.reports
}

func checkCli(c CliCase) pbt.Verdict {
	root := cli.Scratch("c08-cli-")
	defer os.RemoveAll(root)
	files := map[string]string{}
	for _, f := range c.Java.Files {
		files["src/"+f.Path] = f.Text
	}
	for _, f := range c.Others {
		files["src/"+f.Path] = f.Text
	}
	for _, f := range c.GoFiles {
		files["src/goproj/"+f.Path] = f.Text
	}
	k := cliReps(c.Reps)
	for i := 0; i < k; i++ {
		cli.WriteTree(filepath.Join(root, fmt.Sprintf("run-%d", i)), files)
	}
	var repo *ggen.Repo
	sim, err := ggen.Simulate(c.History)
	if err != nil {
		ggen.HarnessFatal("case does not simulate: %v", err)
	}
	if len(sim.Log()) > 0 {
		repo, err = ggen.Build(root, sim)
		if err != nil {
			ggen.HarnessFatal("cannot build the git repository of the case: %v", err)
		}
		defer repo.Remove()
	}
	// the K runs of the source-tree commands side by side, each in its own copy
	runs := make([][]report, k)
	var wg sync.WaitGroup
	var harnessPanic string
	var mu sync.Mutex
	for i := 0; i < k && !c.GitOnly; i++ {
		wg.Add(1)
		go func(i int) {
			defer wg.Done()
			if p := pbt.Call(func() { runs[i] = oneCliRun(filepath.Join(root, fmt.Sprintf("run-%d", i)), c) }); p != "" {
				mu.Lock()
				harnessPanic = p
				mu.Unlock()
			}
		}(i)
	}
	wg.Wait()
	if harnessPanic != "" {
		panic(harnessPanic)
	}
	v := repeat("cli", k, func(rep int) []report {
		out := runs[rep]
		if repo != nil {
			out = append(out, gitCliRun(repo, c)...)
		}
		return out
	})
	if c.LongOpts {
		v.Classes = append(v.Classes, "cli/long_option_spellings")
	}
	if c.Remove {
		v.Classes = append(v.Classes, "cli/call_rcall_remove_package")
	}
	if len(c.GoFiles) > 0 {
		v.Classes = append(v.Classes, "cli/with_go_project")
	}
	return v
}

func registerCli() {
	pbt.Register("cli", 5, 12, genCli, checkCli)
}
