package c08

import (
	"fmt"
	"sort"
	"strings"

	"github.com/awalterschulze/gographviz"
	"github.com/modernizing/coca/pkg/application/arch"
	"github.com/modernizing/coca/pkg/application/arch/tequila"
	"github.com/modernizing/coca/pkg/application/call"
	"github.com/modernizing/coca/pkg/domain/api_domain"
	"github.com/modernizing/coca/pkg/domain/core_domain"
	"pgregory.net/rapid"

	"verif/internal/mgen"
	"verif/internal/pbt"
)

// ---------------------------------------------------------------------------------------
// architecture graph: label-level canonical form (cluster and node ids are generated
// counters handed out in map order, they are free)

func attr(as gographviz.Attrs, key string) string { return as[gographviz.Attr(key)] }

// labelPath: labels of the enclosing clusters from the outermost one, then the own label.
func labelPath(g *gographviz.Graph, name string) string {
	var parts []string
	cur := name
	for steps := 0; steps < 64; steps++ {
		label := cur
		if n, ok := g.Nodes.Lookup[cur]; ok {
			label = attr(n.Attrs, "label")
		} else if sg, ok := g.SubGraphs.SubGraphs[cur]; ok {
			label = attr(sg.Attrs, "label")
		}
		parts = append([]string{label}, parts...)
		// a node named in an edge statement is also listed under the root graph
		var parents []string
		for p := range g.Relations.ChildToParents[cur] {
			if p != g.Name {
				parents = append(parents, p)
			}
		}
		if len(parents) != 1 {
			break
		}
		cur = parents[0]
	}
	return strings.Join(parts, " / ")
}

func canonDot(g *gographviz.Graph) string {
	var lines []string
	for _, n := range g.Nodes.Nodes {
		lines = append(lines, "node "+labelPath(g, n.Name)+" shape="+attr(n.Attrs, "shape"))
	}
	for name := range g.SubGraphs.SubGraphs {
		lines = append(lines, "cluster "+labelPath(g, name))
	}
	for _, e := range g.Edges.Edges {
		lines = append(lines, "edge "+labelPath(g, e.Src)+" -> "+labelPath(g, e.Dst)+" style="+attr(e.Attrs, "style"))
	}
	return multiset(lines)
}

func canonFullGraph(fg *tequila.FullGraph) string {
	var lines []string
	for k, v := range fg.NodeList {
		lines = append(lines, "node "+k+" = "+v)
	}
	for _, r := range fg.RelationList {
		lines = append(lines, "relation "+r.From+" -> "+r.To+" style="+r.Style)
	}
	return multiset(lines)
}

func includeAll(string) bool { return true }

// archReports: what `coca arch`, `coca arch -H` and `coca arch -P` compute and print.
func archReports(deps []core_domain.CodeDataStruct, identMap map[string]core_domain.CodeDataStruct) []report {
	var full *tequila.FullGraph
	out := guard("arch", func() []report {
		full = arch.NewArchApp().Analysis(deps, identMap)
		plain := full.ToMapDot(includeAll)
		return []report{{"arch", plain.String(), canonFullGraph(full) + "\n" + canonDot(plain)}}
	})
	if full == nil {
		return out
	}
	out = append(out, guard("arch-flat-dot", func() []report {
		flat := full.ToDot(".", includeAll)
		return []report{{"arch-flat-dot", flat.String(), canonDot(flat)}}
	})...)
	for _, m := range []struct {
		name string
		fn   func(string) string
	}{{"arch-merge-header", tequila.MergeHeaderFunc}, {"arch-merge-package", tequila.MergePackageFunc}} {
		m := m
		out = append(out, guard(m.name, func() []report {
			merged := full.MergeHeaderFile(m.fn)
			d := merged.ToMapDot(includeAll)
			return []report{{m.name, d.String(), canonFullGraph(merged) + "\n" + canonDot(d)}}
		})...)
	}
	out = append(out, guard("arch-fan-table", func() []report {
		fans := full.SortedByFan(tequila.MergeHeaderFunc)
		var items, keys, rawItems []string
		for _, f := range fans {
			items = append(items, fmt.Sprintf("%s in=%d out=%d", f.Name, f.FanIn, f.FanOut))
			keys = append(keys, fmt.Sprint(f.FanIn+f.FanOut))
			rawItems = append(rawItems, f.Name)
		}
		return []report{{"arch-fan-table", strings.Join(rawItems, ","), sortedRuns(items, keys)}}
	})...)
	return out
}

// ---------------------------------------------------------------------------------------
// sub-check "graphs": abstract models through every model-level report

type GraphCase struct {
	Model mgen.Model `json:"model"`
	Roots []string   `json:"roots"`
	Reps  int        `json:"reps,omitempty"`
}

var archPkgs = []string{"a", "b", "a.b", "ab", "c", "bc"}

func genGraph(t *rapid.T) GraphCase {
	m := mgen.Gen(t, mgen.Options{MaxClasses: 4, MaxMethods: 4, MaxCalls: 3})
	// extends / implements / field references for the architecture graph, over package
	// names whose concatenations coincide (a+bc = ab+c)
	for i := range m.Classes {
		c := &m.Classes[i]
		target := func(label string) (string, string) {
			if rapid.IntRange(0, 3).Draw(t, label+"External") == 0 {
				return rapid.SampledFrom(archPkgs).Draw(t, label+"Pkg"), "Ext"
			}
			tc := m.Classes[rapid.IntRange(0, len(m.Classes)-1).Draw(t, label)]
			return tc.Pkg, tc.Name
		}
		if rapid.IntRange(0, 2).Draw(t, "hasExtend") == 0 {
			p, n := target("extend")
			c.Extend = p + "." + n
		}
		ni := rapid.IntRange(0, 2).Draw(t, "nImplements")
		for k := 0; k < ni; k++ {
			p, n := target("impl")
			c.Implements = append(c.Implements, p+"."+n)
		}
		nf := rapid.IntRange(0, 2).Draw(t, "nFieldRefs")
		for k := 0; k < nf; k++ {
			p, n := target("field")
			c.FieldCalls = append(c.FieldCalls, mgen.Call{Pkg: p, Node: n, Type: "field"})
		}
	}
	c := GraphCase{Model: m}
	methods := m.Methods()
	if len(methods) == 0 {
		c.Roots = []string{"zz.Absent.nothing"}
		return c
	}
	n := rapid.IntRange(1, 2).Draw(t, "nRoots")
	for i := 0; i < n; i++ {
		c.Roots = append(c.Roots, rapid.SampledFrom(methods).Draw(t, "root"))
	}
	c.Roots = dedupe(c.Roots)
	return c
}

func checkGraph(c GraphCase) pbt.Verdict {
	v := repeat("graphs", reps(c.Reps), func(rep int) []report {
		resetAll()
		deps := c.Model.ToCoca()
		identMap := core_domain.BuildIdentifierMap(deps)
		out := modelReports(deps, identMap, c.Roots)
		// API graph with the roots as handlers
		return append(out, guard("api-graph", func() []report {
			var apis []api_domain.RestAPI
			for i, r := range c.Roots {
				k := strings.LastIndex(r, ".")
				cls := r[:k]
				j := strings.LastIndex(cls, ".")
				if j < 0 {
					continue
				}
				apis = append(apis, api_domain.RestAPI{HttpMethod: "GET", Uri: fmt.Sprintf("/r%d", i), PackageName: cls[:j], ClassName: cls[j+1:], MethodName: r[k+1:]})
			}
			text, counts := call.NewCallGraph().AnalysisByFiles(apis, deps, nil)
			var sizes []string
			for _, ca := range counts {
				sizes = append(sizes, fmt.Sprintf("%d %s %s %s", ca.Size, ca.HTTPMethod, ca.URI, ca.Caller))
			}
			sort.Strings(sizes)
			return []report{{"api-graph", text, mustEdges("api graph", text, "digraph G {") + "\n" + strings.Join(sizes, "\n")}}
		})...)
	})
	if len(c.Model.Classes) >= 2 {
		v.Classes = append(v.Classes, "graphs/two_or_more_types")
	}
	return v
}

func registerGraphs() {
	pbt.Register("graphs", 150, 600, genGraph, checkGraph)
}
