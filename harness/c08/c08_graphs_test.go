package c08

import (
	"fmt"
	"sort"
	"strings"

	"github.com/awalterschulze/gographviz"
	"github.com/modernizing/coca/pkg/application/arch"
	"github.com/modernizing/coca/pkg/application/arch/tequila"
	"github.com/modernizing/coca/pkg/application/call"
	"github.com/modernizing/coca/pkg/domain/api_domain"
	"github.com/modernizing/coca/pkg/domain/core_domain"
	"pgregory.net/rapid"

	"verif/internal/mgen"
	"verif/internal/pbt"
)

// ---------------------------------------------------------------------------------------
// architecture graph: label-level canonical form (cluster and node ids are generated
// counters handed out in map order, they are free)

func attr(as gographviz.Attrs, key string) string { return as[gographviz.Attr(key)] }

// labelPath: labels of the enclosing clusters from the outermost one, then the own label.
func labelPath(g *gographviz.Graph, name string) string {
	var parts []string
	cur := name
	for steps := 0; steps < 64; steps++ {
		label := cur
		if n, ok := g.Nodes.Lookup[cur]; ok {
			label = attr(n.Attrs, "label")
		} else if sg, ok := g.SubGraphs.SubGraphs[cur]; ok {
			label = attr(sg.Attrs, "label")
		}
		parts = append([]string{label}, parts...)
		// a node named in an edge statement is also listed under the root graph
		var parents []string
		for p := range g.Relations.ChildToParents[cur] {
			if p != g.Name {
				parents = append(parents, p)
			}
		}
		if len(parents) != 1 {
			break
		}
		cur = parents[0]
	}
	return strings.Join(parts, " / ")
}

func canonDot(g *gographviz.Graph) string {
	var lines []string
	for _, n := range g.Nodes.Nodes {
		lines = append(lines, "node "+labelPath(g, n.Name)+" shape="+attr(n.Attrs, "shape"))
	}
	for name := range g.SubGraphs.SubGraphs {
		lines = append(lines, "cluster "+labelPath(g, name))
	}
	for _, e := range g.Edges.Edges {
		lines = append(lines, "edge "+labelPath(g, e.Src)+" -> "+labelPath(g, e.Dst)+" style="+attr(e.Attrs, "style"))
	}
	return multiset(lines)
}

func canonFullGraph(fg *tequila.FullGraph) string {
	var lines []string
	for k, v := range fg.NodeList {
		lines = append(lines, "node "+k+" = "+v)
	}
	for _, r := range fg.RelationList {
		lines = append(lines, "relation "+r.From+" -> "+r.To+" style="+r.Style)
	}
	return multiset(lines)
}

func includeAll(string) bool { return true }

// archReports: what `coca arch`, `coca arch -H` and `coca arch -P` compute and print.
func archReports(deps []core_domain.CodeDataStruct, identMap map[string]core_domain.CodeDataStruct) []report {
	var full *tequila.FullGraph
	out := guard("arch", func() []report {
		full = arch.NewArchApp().Analysis(deps, identMap)
		plain := full.ToMapDot(includeAll)
		return []report{{"arch", plain.String(), canonFullGraph(full) + "\n" + canonDot(plain)}}
	})
	if full == nil {
		return out
	}
	out = append(out, guard("arch-flat-dot", func() []report {
		flat := full.ToDot(".", includeAll)
		return []report{{"arch-flat-dot", flat.String(), canonDot(flat)}}
	})...)
	for _, m := range []struct {
		name string
		fn   func(string) string
	}{{"arch-merge-header", tequila.MergeHeaderFunc}, {"arch-merge-package", tequila.MergePackageFunc}} {
		m := m
		out = append(out, guard(m.name, func() []report {
			merged := full.MergeHeaderFile(m.fn)
			d := merged.ToMapDot(includeAll)
			return []report{{m.name, d.String(), canonFullGraph(merged) + "\n" + canonDot(d)}}
		})...)
	}
	out = append(out, guard("arch-fan-table", func() []report {
		fans := full.SortedByFan(tequila.MergeHeaderFunc)
		var items, keys, rawItems []string
		for _, f := range fans {
			items = append(items, fmt.Sprintf("%s in=%d out=%d", f.Name, f.FanIn, f.FanOut))
			keys = append(keys, fmt.Sprint(f.FanIn+f.FanOut))
			rawItems = append(rawItems, f.Name)
		}
		return []report{{"arch-fan-table", strings.Join(rawItems, ","), sortedRuns(items, keys)}}
	})...)
	return out
}

// ---------------------------------------------------------------------------------------
// sub-check "graphs": abstract models through every model-level report

type GraphCase struct {
	Model mgen.Model `json:"model"`
	Roots []string   `json:"roots"`
	Reps  int        `json:"reps,omitempty"`
}

var archPkgs = []string{"a", "b", "a.b", "ab", "c", "bc"}

func genGraph(t *rapid.T) GraphCase {
	opts := mgen.Options{MaxClasses: 4, MaxMethods: 4, MaxCalls: 3}
	if rapid.IntRange(0, 3).Draw(t, "bigModel") == 3 {
		// more than eight types: Go iterates such a map in any order, not only in rotations
		opts.MaxClasses = 11
	}
	m := mgen.Gen(t, opts)
	collide(t, &m)
	if opts.MaxClasses > 4 {
		pad(t, &m)
	}
	// extends / implements / field references for the architecture graph, over package
	// names whose concatenations coincide (a+bc = ab+c)
	for i := range m.Classes {
		c := &m.Classes[i]
		target := func(label string) (string, string) {
			if rapid.IntRange(0, 3).Draw(t, label+"External") == 0 {
				return rapid.SampledFrom(archPkgs).Draw(t, label+"Pkg"), "Ext"
			}
			tc := m.Classes[rapid.IntRange(0, len(m.Classes)-1).Draw(t, label)]
			return tc.Pkg, tc.Name
		}
		if rapid.IntRange(0, 2).Draw(t, "hasExtend") == 0 {
			p, n := target("extend")
			c.Extend = p + "." + n
		}
		ni := rapid.IntRange(0, 2).Draw(t, "nImplements")
		for k := 0; k < ni; k++ {
			p, n := target("impl")
			c.Implements = append(c.Implements, p+"."+n)
		}
		nf := rapid.IntRange(0, 2).Draw(t, "nFieldRefs")
		for k := 0; k < nf; k++ {
			p, n := target("field")
			c.FieldCalls = append(c.FieldCalls, mgen.Call{Pkg: p, Node: n, Type: "field"})
		}
	}
	c := GraphCase{Model: m}
	methods := m.Methods()
	if len(methods) == 0 {
		c.Roots = []string{"zz.Absent.nothing"}
		return c
	}
	n := rapid.IntRange(1, 2).Draw(t, "nRoots")
	for i := 0; i < n; i++ {
		c.Roots = append(c.Roots, rapid.SampledFrom(methods).Draw(t, "root"))
	}
	c.Roots = dedupe(c.Roots)
	return c
}

var deepPkgs = []string{"o.p.q.r.s.t", "o.p.q.r.s.t.u", "o.p.q.r.s.t.u.v", "o.p.q.r.s.t.w"}

// pad adds 0-16 further types to a big model, each with one or two methods that call declared
// methods of the model (one callee gets many callers; every name-keyed table of the reports gets
// more than 8, in part more than 16 entries). In half of the cases their packages are six to eight
// segments deep: the package merge of the architecture graph keeps the first seven segments of a
// longer name and the first segment of any other.
func pad(t *rapid.T, m *mgen.Model) {
	n := rapid.IntRange(0, 16).Draw(t, "nPaddingTypes")
	if n == 0 {
		return
	}
	pool := archPkgs
	if rapid.Bool().Draw(t, "deepPackages") {
		pool = deepPkgs
	}
	type ref struct{ pkg, node, fn string }
	var targets []ref
	for _, c := range m.Classes {
		for _, mm := range c.Methods {
			targets = append(targets, ref{c.Pkg, c.Name, mm.Name})
		}
	}
	for i := 0; i < n; i++ {
		c := mgen.Class{Pkg: rapid.SampledFrom(pool).Draw(t, "padPkg"), Name: fmt.Sprintf("P%d", i)}
		nm := rapid.IntRange(1, 2).Draw(t, "nPadMethods")
		for j := 0; j < nm; j++ {
			mm := mgen.Method{Name: fmt.Sprintf("p%d", j)}
			nc := rapid.IntRange(1, 2).Draw(t, "nPadCalls")
			for k := 0; k < nc && len(targets) > 0; k++ {
				r := targets[rapid.IntRange(0, len(targets)-1).Draw(t, "padTarget")]
				mm.Calls = append(mm.Calls, mgen.Call{Pkg: r.pkg, Node: r.node, Func: r.fn})
			}
			c.Methods = append(c.Methods, mm)
			targets = append(targets, ref{c.Pkg, c.Name, mm.Name}) // later padding types may call this one
		}
		m.Classes = append(m.Classes, c)
	}
}

// collide makes names compete: a type takes the simple name of a type of another package (every
// reference follows), a method takes the name of another method of its type (an overload; calls
// to either now name both).
func collide(t *rapid.T, m *mgen.Model) {
	retarget := func(pkg, node, fn string, to func(c *mgen.Call)) {
		fix := func(c *mgen.Call) {
			if c.Pkg == pkg && c.Node == node && (fn == "" || c.Func == fn) {
				to(c)
			}
		}
		for i := range m.Classes {
			for k := range m.Classes[i].FieldCalls {
				fix(&m.Classes[i].FieldCalls[k])
			}
			for j := range m.Classes[i].Methods {
				for k := range m.Classes[i].Methods[j].Calls {
					fix(&m.Classes[i].Methods[j].Calls[k])
				}
			}
		}
	}
	if len(m.Classes) >= 2 && rapid.IntRange(0, 2).Draw(t, "sharedSimpleName") > 0 {
		j := rapid.IntRange(1, len(m.Classes)-1).Draw(t, "renamedType")
		i := rapid.IntRange(0, j-1).Draw(t, "nameOfType")
		a, b := m.Classes[i], &m.Classes[j]
		if a.Pkg != b.Pkg {
			free := true
			for _, c := range m.Classes {
				if c.Pkg == b.Pkg && c.Name == a.Name {
					free = false
				}
			}
			if free {
				old := b.Name
				retarget(b.Pkg, old, "", func(c *mgen.Call) { c.Node = a.Name })
				for k := range b.Methods {
					if b.Methods[k].Ctor {
						b.Methods[k].Name = a.Name
					}
				}
				b.Name = a.Name
			}
		}
	}
	if rapid.IntRange(0, 3).Draw(t, "unresolvedReceivers") == 3 {
		// a receiver whose package the front-end could not tell: only the simple name is recorded
		for i := range m.Classes {
			for j := range m.Classes[i].Methods {
				for k := range m.Classes[i].Methods[j].Calls {
					if m.Classes[i].Methods[j].Calls[k].Node != "" && rapid.IntRange(0, 3).Draw(t, "unresolved") == 0 {
						m.Classes[i].Methods[j].Calls[k].Pkg = ""
					}
				}
			}
		}
	}
	if rapid.IntRange(0, 2).Draw(t, "overloads") > 0 {
		for i := range m.Classes {
			c := &m.Classes[i]
			var plain []int
			for k, mm := range c.Methods {
				if !mm.Ctor {
					plain = append(plain, k)
				}
			}
			if len(plain) < 2 || rapid.Bool().Draw(t, "noOverloadHere") {
				continue
			}
			k := plain[rapid.IntRange(1, len(plain)-1).Draw(t, "overloadOf")]
			first := c.Methods[plain[0]].Name
			old := c.Methods[k].Name
			retarget(c.Pkg, c.Name, old, func(cc *mgen.Call) { cc.Func = first })
			c.Methods[k].Name = first
		}
	}
}

func checkGraph(c GraphCase) pbt.Verdict {
	v := repeat("graphs", reps(c.Reps), func(rep int) []report {
		resetAll()
		deps := c.Model.ToCoca()
		identMap := core_domain.BuildIdentifierMap(deps)
		out := modelReports(deps, identMap, c.Roots)
		// API graph with the roots as handlers
		return append(out, guard("api-graph", func() []report {
			var apis []api_domain.RestAPI
			for i, r := range c.Roots {
				k := strings.LastIndex(r, ".")
				cls := r[:k]
				j := strings.LastIndex(cls, ".")
				if j < 0 {
					continue
				}
				apis = append(apis, api_domain.RestAPI{HttpMethod: "GET", Uri: fmt.Sprintf("/r%d", i), PackageName: cls[:j], ClassName: cls[j+1:], MethodName: r[k+1:]})
			}
			text, counts := call.NewCallGraph().AnalysisByFiles(apis, deps, nil)
			var sizes []string
			for _, ca := range counts {
				sizes = append(sizes, fmt.Sprintf("%d %s %s %s", ca.Size, ca.HTTPMethod, ca.URI, ca.Caller))
			}
			sort.Strings(sizes)
			return []report{{"api-graph", text, mustEdges("api graph", text, "digraph G {") + "\n" + strings.Join(sizes, "\n")}}
		})...)
	})
	if len(c.Model.Classes) >= 2 {
		v.Classes = append(v.Classes, "graphs/two_or_more_types")
	}
	if len(c.Model.Classes) > 8 {
		v.Classes = append(v.Classes, "graphs/more_than_eight_types")
	}
	if len(c.Model.Classes) > 16 {
		v.Classes = append(v.Classes, "graphs/more_than_sixteen_types")
	}
	for _, cl := range c.Model.Classes {
		if strings.Count(cl.Pkg, ".") >= 6 {
			v.Classes = append(v.Classes, "graphs/package_of_seven_or_more_segments")
			break
		}
	}
	simple, overload := map[string]bool{}, false
	for _, cl := range c.Model.Classes {
		if simple[cl.Name] {
			v.Classes = append(v.Classes, "graphs/simple_name_in_two_packages")
		}
		simple[cl.Name] = true
		seen := map[string]bool{}
		for _, mm := range cl.Methods {
			if seen[mm.Name] {
				overload = true
			}
			seen[mm.Name] = true
		}
	}
	if overload {
		v.Classes = append(v.Classes, "graphs/overloads")
	}
	return v
}

func registerGraphs() {
	pbt.Register("graphs", 150, 600, genGraph, checkGraph)
}
