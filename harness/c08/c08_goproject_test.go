package c08

import (
	"bytes"
	"fmt"
	"go/parser"
	"go/token"
	"os"
	"sort"
	"strings"

	"github.com/modernizing/coca/pkg/adapter/cocafile"
	"github.com/modernizing/coca/pkg/application/analysis"
	"github.com/modernizing/coca/pkg/application/analysis/goapp"
	"github.com/modernizing/coca/pkg/domain/core_domain"
	"pgregory.net/rapid"

	"verif/internal/cli"
	"verif/internal/jgen"
	"verif/internal/pbt"
)

// ---------------------------------------------------------------------------------------
// sub-check "goproject": a Go source tree of several packages through the pipeline of the
// Go plug-in (`coca_go analysis`): analysis.CommonAnalysis = identification pass over every
// file (members of the whole tree), then the full pass over every file with those members.
//
// What competes for one place here: a type name declared in two packages (a call on a value of
// that type is attributed to the package of the first member of that name), two directories
// with one package name, a method set spread over declaration orders, the types of one file
// (collected in a map, then sorted by name).

type GoProjCase struct {
	Files []jgen.File `json:"files"` // path relative to the project root (go.mod included when present)
	Reps  int         `json:"reps,omitempty"`
}

type goPkg struct{ dir, name string }

var goPkgPool = []goPkg{{"core", "core"}, {"store", "store"}, {"api", "api"}, {"core/model", "model"}, {"internal/store", "store"}, {"web", "web"}}

var goTypePool = []string{"Order", "Item", "Repo", "Service", "Handler", "Config", "Cache", "Entry", "Node", "Queue", "Batch", "order", "Items", "A", "Zz", "Repository"}

const goModule = "example.com/shop"

type goType struct {
	pkg   goPkg
	name  string
	iface bool
}

// genGoFile writes one file of package p declaring the given types; known = types declared so
// far in the whole project (targets of fields, parameters and calls).
func genGoFile(t *rapid.T, p goPkg, others []goPkg, names []string, known []goType, fileNo int) string {
	var b strings.Builder
	fmt.Fprintf(&b, "package %s\n\n", p.name)
	// imports: other packages of the project (plain or under an alias), fmt
	type imp struct{ alias, pkg string }
	var imps []imp
	for _, o := range others {
		if o.dir == p.dir || rapid.IntRange(0, 2).Draw(t, "importsPkg") == 0 {
			continue
		}
		alias := ""
		use := o.name
		if rapid.IntRange(0, 3).Draw(t, "importAlias") == 3 {
			alias = "x" + o.name
			use = alias
		}
		dupe := false
		for _, i := range imps {
			if i.pkg == use {
				dupe = true // two packages of one name: Go wants an alias for the second
			}
		}
		if dupe {
			alias = o.name + "2"
			use = alias
		}
		if alias != "" {
			fmt.Fprintf(&b, "import %s \"%s/%s\"\n", alias, goModule, o.dir)
		} else {
			fmt.Fprintf(&b, "import \"%s/%s\"\n", goModule, o.dir)
		}
		imps = append(imps, imp{alias, use})
	}
	if len(imps) > 0 {
		b.WriteString("\n")
	}
	local := func() []goType { // types of this package known so far
		var out []goType
		for _, k := range known {
			if k.pkg.dir == p.dir {
				out = append(out, k)
			}
		}
		return out
	}
	for ti, name := range names {
		shape := rapid.IntRange(0, 3).Draw(t, "goTypeShape") // 0,1 struct then methods; 2 methods first; 3 interface
		nm := rapid.IntRange(0, 3).Draw(t, "nGoMethods")
		methods := func() {
			for k := 0; k < nm; k++ {
				param, ptype := "", ""
				if ls := local(); len(ls) > 0 && rapid.Bool().Draw(t, "goParamLocal") {
					ptype = ls[rapid.IntRange(0, len(ls)-1).Draw(t, "goParamType")].name
					param = "arg *" + ptype
				} else if len(imps) > 0 && len(known) > 0 && rapid.Bool().Draw(t, "goParamForeign") {
					i := imps[rapid.IntRange(0, len(imps)-1).Draw(t, "goParamImp")]
					ptype = known[rapid.IntRange(0, len(known)-1).Draw(t, "goParamForeignType")].name
					param = "arg *" + i.pkg + "." + ptype
				}
				fmt.Fprintf(&b, "func (x *%s) Do%d(%s) string {\n", name, k, param)
				nc := rapid.IntRange(0, 3).Draw(t, "nGoCalls")
				for c := 0; c < nc; c++ {
					switch kind := rapid.IntRange(0, 5).Draw(t, "goCallKind"); {
					case kind == 0 && param != "":
						fmt.Fprintf(&b, "\targ.Do%d()\n", c)
					case kind == 1 && len(imps) > 0:
						i := imps[rapid.IntRange(0, len(imps)-1).Draw(t, "goCallImp")]
						fmt.Fprintf(&b, "\t%s.Open%d()\n", i.pkg, c)
					case kind == 2:
						fmt.Fprintf(&b, "\tx.Do%d()\n", (k+1)%3)
					case kind == 3 && len(known) > 0:
						// a local variable of a project type (possibly one declared in two packages)
						kt := known[rapid.IntRange(0, len(known)-1).Draw(t, "goLocalType")]
						fmt.Fprintf(&b, "\tv%d := New%s()\n\tv%d.Do0()\n", c, kt.name, c)
					case kind == 4:
						fmt.Fprintf(&b, "\tdefer x.Do%d()\n", c)
					default:
						fmt.Fprintf(&b, "\thelper%d()\n", c)
					}
				}
				b.WriteString("\treturn x.Name\n}\n\n")
			}
		}
		switch shape {
		case 3:
			fmt.Fprintf(&b, "type %s interface {\n\tRun%d(n int) string\n", name, ti)
			if nm > 0 {
				b.WriteString("\tStop()\n")
			}
			b.WriteString("}\n\n")
			known = append(known, goType{p, name, true})
		default:
			decl := func() {
				fmt.Fprintf(&b, "type %s struct {\n\tName string\n\tF%d_%d int\n", name, fileNo, ti)
				if ls := local(); len(ls) > 0 && rapid.Bool().Draw(t, "goFieldLocal") {
					fmt.Fprintf(&b, "\tPrev *%s\n", ls[rapid.IntRange(0, len(ls)-1).Draw(t, "goFieldType")].name)
				}
				if len(imps) > 0 && len(known) > 0 && rapid.Bool().Draw(t, "goFieldForeign") {
					i := imps[rapid.IntRange(0, len(imps)-1).Draw(t, "goFieldImp")]
					fmt.Fprintf(&b, "\tOther *%s.%s\n", i.pkg, known[rapid.IntRange(0, len(known)-1).Draw(t, "goFieldForeignType")].name)
				}
				b.WriteString("}\n\n")
			}
			if shape == 2 {
				methods()
				decl()
			} else {
				decl()
				methods()
			}
			known = append(known, goType{p, name, false})
			if rapid.IntRange(0, 2).Draw(t, "goCtor") > 0 {
				// an exported function: listed as a structure of its own by the plug-in
				fmt.Fprintf(&b, "func New%s() *%s {\n\treturn &%s{}\n}\n\n", name, name, name)
			}
		}
	}
	if rapid.Bool().Draw(t, "goHelpers") {
		fmt.Fprintf(&b, "func helper0() {\n}\n\nfunc Open%d() string {\n\thelper0()\n\treturn \"o\"\n}\n\n", fileNo%3)
	}
	return b.String()
}

func genGoProject(t *rapid.T) GoProjCase {
	var c GoProjCase
	if rapid.IntRange(0, 3).Draw(t, "goMod") > 0 {
		c.Files = append(c.Files, jgen.File{Path: "go.mod", Text: "module " + goModule + "\n\ngo 1.16\n"})
	}
	np := rapid.IntRange(2, 4).Draw(t, "nGoPkgs")
	perm := rapid.Permutation(goPkgPool).Draw(t, "goPkgs")
	pkgs := perm[:np]
	sort.Slice(pkgs, func(i, j int) bool { return pkgs[i].dir < pkgs[j].dir })
	var known []goType
	free := append([]string(nil), goTypePool...)
	fileNo := 0
	for pi, p := range pkgs {
		nf := rapid.IntRange(1, 2).Draw(t, "nGoFiles")
		for f := 0; f < nf; f++ {
			nt := rapid.IntRange(1, 3).Draw(t, "nGoTypes")
			if rapid.IntRange(0, 7).Draw(t, "goManyTypes") == 7 {
				nt = rapid.IntRange(9, 12).Draw(t, "nGoTypesMany") // a map of more than eight types per file
			}
			var names []string
			for k := 0; k < nt && len(free) > 0; k++ {
				// a name of an earlier package again (declared in two packages), or a fresh one
				if pi > 0 && len(known) > 0 && rapid.IntRange(0, 2).Draw(t, "goDupType") == 2 {
					cand := known[rapid.IntRange(0, len(known)-1).Draw(t, "goDupOf")]
					clash := cand.pkg.dir == p.dir
					for _, n := range names {
						if n == cand.name {
							clash = true
						}
					}
					for _, kn := range known {
						if kn.pkg.dir == p.dir && kn.name == cand.name {
							clash = true
						}
					}
					if !clash {
						names = append(names, cand.name)
						continue
					}
				}
				j := rapid.IntRange(0, len(free)-1).Draw(t, "goTypeName")
				names = append(names, free[j])
				free = append(free[:j:j], free[j+1:]...)
			}
			text := genGoFile(t, p, pkgs, names, known, fileNo)
			for _, n := range names {
				known = append(known, goType{p, n, false})
			}
			path := fmt.Sprintf("%s/f%d.go", p.dir, fileNo)
			if _, err := parser.ParseFile(token.NewFileSet(), path, text, 0); err != nil {
				panic(fmt.Sprintf("c08: generator bug, %s is not valid Go: %v\n%s", path, err, text))
			}
			c.Files = append(c.Files, jgen.File{Path: path, Text: text})
			fileNo++
		}
	}
	return c
}

// stripRoot removes the scratch directory (as a path and in the dotted form the Go front-end
// derives package names from) from a report, so that messages depend on the case only.
func stripRoot(s, root string) string {
	s = strings.ReplaceAll(s, root, "<root>")
	dotted := strings.ReplaceAll(strings.TrimPrefix(root, "/"), "/", ".")
	return strings.ReplaceAll(s, dotted, "<root>")
}

func goProjectClasses(files []jgen.File) []string {
	var classes []string
	declared := map[string]map[string]bool{} // type name -> directories
	pkgDirs := map[string]map[string]bool{}  // package name -> directories
	many := false
	for _, f := range files {
		if !strings.HasSuffix(f.Path, ".go") {
			classes = append(classes, "goproject/with_go_mod")
			continue
		}
		dir := f.Path[:strings.LastIndex(f.Path, "/")]
		n := 0
		for _, l := range strings.Split(f.Text, "\n") {
			if strings.HasPrefix(l, "package ") {
				name := strings.TrimPrefix(l, "package ")
				if pkgDirs[name] == nil {
					pkgDirs[name] = map[string]bool{}
				}
				pkgDirs[name][dir] = true
			}
			if strings.HasPrefix(l, "type ") {
				name := strings.Fields(l)[1]
				if declared[name] == nil {
					declared[name] = map[string]bool{}
				}
				declared[name][dir] = true
				n++
			}
		}
		if n > 8 {
			many = true
		}
	}
	for _, name := range sortedSetKeys(declared) {
		if len(declared[name]) > 1 {
			classes = append(classes, "goproject/type_name_in_two_packages")
			break
		}
	}
	for _, name := range sortedSetKeys(pkgDirs) {
		if len(pkgDirs[name]) > 1 {
			classes = append(classes, "goproject/two_directories_one_package_name")
			break
		}
	}
	if many {
		classes = append(classes, "goproject/file_with_more_than_eight_types")
	}
	return classes
}

func sortedSetKeys(m map[string]map[string]bool) []string {
	var ks []string
	for k := range m {
		ks = append(ks, k)
	}
	sort.Strings(ks)
	return ks
}

func checkGoProject(c GoProjCase) pbt.Verdict {
	root := cli.Scratch("c08-go-")
	defer os.RemoveAll(root)
	files := map[string]string{}
	for _, f := range c.Files {
		files[f.Path] = f.Text
	}
	cli.WriteTree(root, files)
	v := repeat("goproject", reps(c.Reps), func(rep int) []report {
		resetAll()
		return guard("go-model", func() []report {
			var ds []core_domain.CodeDataStruct
			ds = analysis.CommonAnalysis(new(bytes.Buffer), root, new(goapp.GoIdentApp), cocafile.GoFileFilter, true)
			return []report{{"go-model", stripRoot(js(ds), root), stripRoot(canonTypes(ds), root)}}
		})
	})
	v.Classes = append(v.Classes, goProjectClasses(c.Files)...)
	return v
}

func registerGoProject() {
	pbt.Register("goproject", 60, 240, genGoProject, checkGoProject)
}
