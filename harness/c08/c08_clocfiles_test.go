package c08

import (
	"encoding/json"
	"fmt"
	"os"
	"path/filepath"
	"sort"
	"strings"
	"sync"

	"pgregory.net/rapid"

	"verif/internal/cli"
	"verif/internal/jgen"
	"verif/internal/pbt"
)

// ---------------------------------------------------------------------------------------
// sub-check "clocfiles": `coca cloc DIR --top-file [--top-size N]`, the per-language tables of
// the largest files. The line counter hands the files over in the order its worker goroutines
// finish (a schedule, like a map iteration); coca sorts them by lines of code and keeps the
// first N (30 unless --top-size says otherwise). Line counts of small files tie all the time.

type ClocFilesCase struct {
	Files   []jgen.File `json:"files"`             // below src/
	TopSize int         `json:"topSize,omitempty"` // 0 = the default (30)
	Reps    int         `json:"reps,omitempty"`
}

func genClocFiles(t *rapid.T) ClocFilesCase {
	var c ClocFilesCase
	type lang struct {
		ext  string
		text func(i, extra int) string
	}
	lines := func(n int, f func(k int) string) string {
		var b strings.Builder
		for k := 0; k < n; k++ {
			b.WriteString(f(k))
		}
		return b.String()
	}
	langs := []lang{
		{"java", func(i, extra int) string {
			return fmt.Sprintf("package a;\n\npublic class C%d {\n%s}\n", i, lines(extra, func(k int) string { return fmt.Sprintf("    int x%d;\n", k) }))
		}},
		{"go", func(i, extra int) string {
			return fmt.Sprintf("package b\n\nfunc F%d() int {\n%s\treturn 1\n}\n", i, lines(extra, func(k int) string { return fmt.Sprintf("\tprintln(%d)\n", k) }))
		}},
		{"py", func(i, extra int) string {
			return fmt.Sprintf("import sys\n\n%sprint(sys.argv)\n", lines(extra, func(k int) string { return fmt.Sprintf("x%d = %d\n", k, i) }))
		}},
	}
	nl := rapid.IntRange(1, 3).Draw(t, "nLanguages")
	dirs := []string{"a", "b", "a/sub"}
	for li := 0; li < nl; li++ {
		n := rapid.IntRange(1, 12).Draw(t, "nFilesOfLanguage")
		if rapid.IntRange(0, 5).Draw(t, "moreThanThirtyFiles") == 5 {
			n = rapid.IntRange(31, 36).Draw(t, "nManyFilesOfLanguage") // past the default table size
		}
		for i := 0; i < n; i++ {
			extra := rapid.IntRange(0, 2).Draw(t, "extraLines")
			dir := dirs[rapid.IntRange(0, len(dirs)-1).Draw(t, "fileDir")]
			c.Files = append(c.Files, jgen.File{Path: fmt.Sprintf("%s/f%02d.%s", dir, i, langs[li].ext), Text: langs[li].text(i, extra)})
		}
	}
	if !pbt.Excluded("cloc_top_file_cut_among_ties") {
		c.TopSize = rapid.IntRange(0, 3).Draw(t, "topSize")
	}
	return c
}

// canonTopFileTables: the sections ("Language: X" + table) as a collection; the rows of a section as a
// sequence sorted by length with runs of equal length as multisets.
func canonTopFileTables(out string) string {
	var sections []string
	var name string
	var items, keys []string
	flush := func() {
		if name != "" {
			sections = append(sections, strings.ReplaceAll(name+"\n"+sortedRuns(items, keys), "\n", " ¶ "))
		}
		name, items, keys = "", nil, nil
	}
	for _, l := range strings.Split(out, "\n") {
		l = strings.TrimSpace(l)
		if strings.HasPrefix(l, "Language: ") {
			flush()
			name = l
			continue
		}
		if name == "" || !strings.HasPrefix(l, "|") || strings.HasPrefix(l, "|-") {
			continue
		}
		cells := strings.Split(strings.Trim(l, "|"), "|")
		for i := range cells {
			cells[i] = strings.TrimSpace(cells[i])
		}
		if len(cells) != 3 || cells[0] == "LENGTH" {
			continue
		}
		items = append(items, strings.Join(cells, " ; "))
		keys = append(keys, cells[0])
	}
	flush()
	return multiset(sections)
}

// canonSortedCloc: sort_cloc.json, every language with all its files sorted by lines of code.
func canonSortedCloc(data string) string {
	var langs []struct {
		Name  string
		Code  int64
		Count int64
		Files []struct {
			Location string
			Code     int64
			Lines    int64
		}
	}
	if err := json.Unmarshal([]byte(data), &langs); err != nil {
		return "<unexpected sort_cloc.json>\n" + data
	}
	var sections []string
	for _, l := range langs {
		var items, keys []string
		for _, f := range l.Files {
			items = append(items, fmt.Sprintf("%s code=%d lines=%d", f.Location, f.Code, f.Lines))
			keys = append(keys, fmt.Sprint(f.Code))
		}
		sections = append(sections, strings.ReplaceAll(fmt.Sprintf("%s code=%d files=%d\n%s", l.Name, l.Code, l.Count, sortedRuns(items, keys)), "\n", " ¶ "))
	}
	return multiset(sections)
}

func checkClocFiles(c ClocFilesCase) pbt.Verdict {
	root := cli.Scratch("c08-clocfiles-")
	defer os.RemoveAll(root)
	files := map[string]string{}
	for _, f := range c.Files {
		files["src/"+f.Path] = f.Text
	}
	k := cliReps(c.Reps)
	runs := make([][]report, k)
	var wg sync.WaitGroup
	var mu sync.Mutex
	harnessPanic := ""
	for i := 0; i < k; i++ {
		dir := filepath.Join(root, fmt.Sprintf("run-%d", i))
		cli.WriteTree(dir, files)
		wg.Add(1)
		go func(i int, dir string) {
			defer wg.Done()
			if p := pbt.Call(func() {
				r := &cliRun{root: dir}
				args := []string{"cloc", "src", "--top-file"}
				if c.TopSize > 0 {
					args = append(args, "--top-size", fmt.Sprint(c.TopSize))
				}
				out := r.coca(dir, nil, args...)
				r.add("cloc --top-file/stdout", out, canonTopFileTables(out))
				r.jsonFile("cloc --top-file/sort_cloc.json", "sort_cloc.json", canonSortedCloc)
				runs[i] = r.reports
			}); p != "" {
				mu.Lock()
				harnessPanic = p
				mu.Unlock()
			}
		}(i, dir)
	}
	wg.Wait()
	if harnessPanic != "" {
		panic(harnessPanic)
	}
	v := repeat("clocfiles", k, func(rep int) []report { return runs[rep] })
	perLang := map[string]int{}
	for _, f := range c.Files {
		perLang[f.Path[strings.LastIndex(f.Path, ".")+1:]]++
	}
	var exts []string
	for e := range perLang {
		exts = append(exts, e)
	}
	sort.Strings(exts)
	limit := 30
	if c.TopSize > 0 {
		limit = c.TopSize
		v.Classes = append(v.Classes, "clocfiles/with_top_size_option")
	}
	for _, e := range exts {
		if perLang[e] > limit {
			v.Classes = append(v.Classes, "clocfiles/table_cut")
			break
		}
	}
	for _, e := range exts {
		if perLang[e] > 30 {
			v.Classes = append(v.Classes, "clocfiles/more_than_thirty_files_of_a_language")
			break
		}
	}
	return v
}

func registerClocFiles() {
	pbt.Register("clocfiles", 6, 12, genClocFiles, checkClocFiles)
}
