package c08

import (
	"fmt"
	"strings"

	"pgregory.net/rapid"

	"verif/internal/jgen"
)

// Collision shapes of the shop tree. A result depends on a map-iteration schedule only where
// several entries compete for one place: two types of one simple name, several implementations
// of one interface, several groups of equal size, several kinds named in one option. Every
// feature below puts such competitors into the generated tree; each is drawn so that the
// smallest draw leaves the feature out (the plain shop of genJava).

type shopExtras struct {
	files   []jgen.File
	roots   []string // pkg.Class.method of methods that call something
	ignore  []string // kinds for IdentifyBadSmell's ignore list / `coca bs -x`
	hasJobs bool
}

const (
	dtoPkg    = shopPkg + ".dto"
	reportPkg = shopPkg + ".report"
	webPkg    = shopPkg + ".web"
	shipPkg   = shopPkg + ".ship"
)

var smellKinds = []string{"dataClass", "lazyElement", "longMethod", "longParameterList", "complexCondition", "repeatedSwitches", "refusedBequest", "largeClass"}

// dupNameFiles: types that share their simple name with a type of the shop package, in another
// package, with other members; and a user of the name in a third package that reaches it through
// a wildcard import (so that the tool resolves the name through its list of project classes).
func dupNameFiles(t *rapid.T, level int) ([]jgen.File, []string) {
	var files []jgen.File
	var roots []string
	w := &jw{}
	w.f("package %s;\n\npublic class Order {\n    private Long name;\n    private String code;\n    private java.util.Date stamp;\n\n", dtoPkg)
	w.f("    public Long getName() {\n        return name;\n    }\n\n    public String getCode() {\n        return code;\n    }\n\n    public void setCode(String code) {\n        this.code = code;\n    }\n\n")
	if rapid.Bool().Draw(t, "dtoOrderBehaviour") {
		w.f("    public String describe(int width) {\n        return code;\n    }\n\n    public String describe() {\n        return this.describe(2);\n    }\n\n")
	}
	w.f("}\n")
	files = append(files, jgen.File{Path: "com/acme/shop/dto/Order.java", Text: w.b.String()})

	// the user: same-package style reference is impossible from a third package, so the name
	// comes in through `import ...dto.*;` or `import ...shop.*;` (either one, or both)
	imp := rapid.IntRange(0, 2).Draw(t, "reportImports")
	w = &jw{}
	w.f("package %s;\n\n", reportPkg)
	if imp != 1 {
		w.f("import %s.*;\n", dtoPkg)
	}
	if imp != 0 {
		w.f("import %s.*;\n", shopPkg)
	}
	w.f("\npublic class OrderReport {\n    private Order last;\n\n")
	w.f("    public Order newest() {\n        Order found = new Order();\n        found.getName();\n        return found;\n    }\n\n")
	w.f("    public String codeOf(Order order) {\n        order.getCode();\n        return \"c\";\n    }\n\n")
	w.f("    @javax.annotation.Nullable\n    public Order cancelOrder(Order order, int qty) {\n        this.newest();\n        return null;\n    }\n\n")
	w.f("}\n")
	files = append(files, jgen.File{Path: "com/acme/shop/report/OrderReport.java", Text: w.b.String()})
	roots = append(roots, reportPkg+".OrderReport.newest", reportPkg+".OrderReport.codeOf", reportPkg+".OrderReport.cancelOrder")

	if level >= 2 {
		// a second OrderService (evaluation keys services by simple name) and a second Item
		w = &jw{}
		w.f("package %s;\n\nimport %s.OrderRepo;\n\npublic class OrderService {\n    private OrderRepo orderRepo;\n\n", reportPkg, shopPkg)
		verbs := []string{"export", "print"}
		n := rapid.IntRange(2, 4).Draw(t, "nReportServiceMethods")
		for i := 0; i < n; i++ {
			ret := rapid.SampledFrom([]string{"OrderReport", "void", "Item"}).Draw(t, "reportRet")
			w.f("    public %s %s%s(%s) {\n        orderRepo.find(%d);\n", ret, verbs[i%2], []string{"Order", "Item", "Batch", "Order"}[i], paramList(longParams[:3+i]), i)
			if ret != "void" {
				w.f("        return null;\n")
			}
			w.f("    }\n\n")
			roots = append(roots, fmt.Sprintf("%s.OrderService.%s%s", reportPkg, verbs[i%2], []string{"Order", "Item", "Batch", "Order"}[i]))
		}
		w.f("}\n")
		files = append(files, jgen.File{Path: "com/acme/shop/report/OrderService.java", Text: w.b.String()})
		w = &jw{}
		w.f("package %s;\n\npublic class Item {\n    private int sku;\n\n    public int getSku() {\n        return sku;\n    }\n\n    public int weigh() {\n        return 1;\n    }\n}\n", dtoPkg)
		files = append(files, jgen.File{Path: "com/acme/shop/dto/Item.java", Text: w.b.String()})
	}
	return files, roots
}

// diFiles: one interface, two or three implementations carrying the stereotype annotations the
// dependency-injection map is built from, and a controller that calls through the interface;
// its handlers take parameters (request body of a type whose simple name may exist twice).
func diFiles(t *rapid.T, level int) ([]jgen.File, []string) {
	var files []jgen.File
	var roots []string
	files = append(files, jgen.File{Path: "com/acme/shop/Shipper.java", Text: "package " + shopPkg + ";\n\npublic interface Shipper {\n    Order ship(Order order);\n\n    void recall(int id);\n}\n"})
	impls := []string{"FastShipper", "SlowShipper", "DroneShipper"}[:level+1]
	stereo := []string{"Component", "Repository", "Service"}
	for i, name := range impls {
		// the identifier pass records an implemented interface through its single-type import
		st := stereo[rapid.IntRange(0, 2).Draw(t, "stereotype")]
		w := &jw{}
		w.f("package %s;\n\nimport org.springframework.stereotype.%s;\nimport %s.Shipper;\nimport %s.Order;\nimport %s.OrderRepo;\n\n@%s\npublic class %s implements Shipper", shipPkg, st, shopPkg, shopPkg, shopPkg, st, name)
		if i == 2 {
			w.f(", Runnable")
		}
		w.f(" {\n    private OrderRepo orderRepo;\n\n")
		w.f("    public Order ship(Order order) {\n")
		switch i {
		case 0:
			w.f("        orderRepo.save(order);\n")
		case 1:
			w.f("        orderRepo.find(1);\n        orderRepo.count();\n")
		default:
			w.f("        this.run();\n")
		}
		w.f("        return order;\n    }\n\n    public void recall(int id) {\n        orderRepo.find(id);\n    }\n\n")
		if i == 2 {
			w.f("    public void run() {\n        orderRepo.count();\n    }\n\n")
		}
		w.f("}\n")
		files = append(files, jgen.File{Path: "com/acme/shop/ship/" + name + ".java", Text: w.b.String()})
		roots = append(roots, shipPkg+"."+name+".ship", shipPkg+"."+name+".recall")
	}
	w := &jw{}
	w.f("package %s;\n\nimport org.springframework.web.bind.annotation.*;\nimport %s.*;\n\n@RestController\n", webPkg, shopPkg)
	switch rapid.IntRange(0, 2).Draw(t, "shipBase") {
	case 1:
		w.f("@RequestMapping(\"/ship\")\n")
	case 2:
		w.f("@RequestMapping(value = \"/ship/v2\")\n")
	}
	w.f("public class ShipCtl {\n    private Shipper shipper;\n    private OrderService orderService;\n\n")
	w.f("    @PostMapping(\"/send\")\n    public String send(@RequestBody Order order, @PathVariable int id) {\n        shipper.ship(order);\n        return \"x\";\n    }\n\n")
	w.f("    @RequestMapping(value = \"/recall\", method = RequestMethod.DELETE)\n    public String recall(@RequestParam String code, @RequestBody Item item) {\n        shipper.recall(1);\n        shipper.ship(new Order());\n        return \"x\";\n    }\n\n")
	if rapid.Bool().Draw(t, "shipPlainHandler") {
		w.f("    @GetMapping(value = \"/state\")\n    public String state(@RequestParam String code) {\n        return \"x\";\n    }\n\n")
	}
	w.f("}\n")
	files = append(files, jgen.File{Path: "com/acme/shop/web/ShipCtl.java", Text: w.b.String()})
	roots = append(roots, webPkg+".ShipCtl.send", webPkg+".ShipCtl.recall", shopPkg+".Shipper.ship")
	return files, roots
}

// inheritFile: a subclass that calls its superclass (refusedBequest), overriding methods of it.
func inheritFile(t *rapid.T) (jgen.File, []string) {
	w := &jw{}
	w.f("package %s;\n\npublic class ArchiveRepo extends OrderRepo {\n", shopPkg)
	w.f("    public int count() {\n        return super.count();\n    }\n\n")
	if rapid.Bool().Draw(t, "archiveOverridesFind") {
		w.f("    public Order find(int id) {\n        this.count();\n        return null;\n    }\n\n")
	}
	w.f("}\n")
	return jgen.File{Path: "com/acme/shop/ArchiveRepo.java", Text: w.b.String()}, []string{shopPkg + ".ArchiveRepo.count"}
}

// jobsFile: field initialisers with calls before and after the first method, an anonymous class
// with a method as an argument, a nested class.
func jobsFile(t *rapid.T, hasUtil bool) (jgen.File, []string) {
	w := &jw{}
	w.f("package %s;\n\npublic class Jobs {\n    private OrderRepo orderRepo = new OrderRepo();\n", shopPkg)
	if hasUtil {
		w.f("    private static final String TAG = TextUtils.trim0(\"t\");\n")
	}
	w.f("\n    public void schedule(int delay) {\n        orderRepo.count();\n")
	if rapid.Bool().Draw(t, "jobsAnonymous") {
		w.f("        new Thread(new Runnable() {\n            public void run() {\n                orderRepo.find(1);\n            }\n        }).start();\n")
	}
	w.f("        orderRepo.save(new Order());\n    }\n\n")
	w.f("    private Item spare = new Item();\n\n")
	w.f("    public Item cancelItem() {\n        this.schedule(1);\n        return spare;\n    }\n\n")
	if rapid.Bool().Draw(t, "jobsNested") {
		w.f("    public static class Entry {\n        private String key;\n\n        public String getKey() {\n            return key;\n        }\n\n        public int size() {\n            return 1;\n        }\n    }\n\n")
	}
	w.f("}\n")
	return jgen.File{Path: "com/acme/shop/Jobs.java", Text: w.b.String()}, []string{shopPkg + ".Jobs.schedule", shopPkg + ".Jobs.cancelItem"}
}

// hugeClass: 20-22 methods that are no getters or setters (largeClass, a sized smell kind).
func hugeClass(t *rapid.T, idx int) jgen.File {
	w := &jw{}
	w.f("package %s;\n\npublic class Huge%d {\n", shopPkg, idx)
	n := rapid.SampledFrom([]int{20, 20, 21, 22}).Draw(t, "nHugeMethods")
	for i := 0; i < n; i++ {
		w.f("    public int step%d(int a) {\n        return a;\n    }\n\n", i)
	}
	w.f("}\n")
	return jgen.File{Path: fmt.Sprintf("com/acme/shop/Huge%d.java", idx), Text: w.b.String()}
}

const moduleRoot = "billing-module/src/main/java/"

// secondRootFiles: a second source root (a module of its own) that declares types of the shop
// package again, under the same full names, with other members. Every table keyed by full type
// or method name holds one of the two declarations; which one must not depend on the run.
func secondRootFiles(t *rapid.T) []jgen.File {
	var files []jgen.File
	w := &jw{}
	w.f("package %s;\n\npublic class Order {\n    private Long name;\n    private int rev;\n\n", shopPkg)
	w.f("    public Long getName() {\n        return name;\n    }\n\n    public int getRev() {\n        return rev;\n    }\n\n")
	if rapid.Bool().Draw(t, "moduleOrderBehaviour") {
		w.f("    public String label() {\n        return null;\n    }\n\n")
	}
	w.f("}\n")
	files = append(files, jgen.File{Path: moduleRoot + "com/acme/shop/Order.java", Text: w.b.String()})
	if rapid.Bool().Draw(t, "moduleRepo") {
		w = &jw{}
		w.f("package %s;\n\npublic class OrderRepo {\n", shopPkg)
		w.f("    public Order find(int id) {\n        this.purge();\n        this.count();\n        return new Order();\n    }\n\n")
		w.f("    public void purge() {\n        this.count();\n    }\n\n    public int count() {\n        return 2;\n    }\n\n")
		w.f("    public void save(Order order) {\n        this.purge();\n    }\n}\n")
		files = append(files, jgen.File{Path: moduleRoot + "com/acme/shop/OrderRepo.java", Text: w.b.String()})
	}
	return files
}

// suffixImportFiles: a class whose imports end in one another (shop.OrderRepo, shop.legacy.Repo),
// written in either order, which extends the shorter one, calls super and holds fields of both.
func suffixImportFiles(t *rapid.T) ([]jgen.File, []string) {
	var files []jgen.File
	legacyPkg, auditPkg := shopPkg+".legacy", shopPkg+".audit"
	files = append(files, jgen.File{Path: "com/acme/shop/legacy/Repo.java", Text: "package " + legacyPkg + ";\n\npublic class Repo {\n    public int load() {\n        return 1;\n    }\n\n    public int count() {\n        return 3;\n    }\n}\n"})
	imps := []string{shopPkg + ".OrderRepo", legacyPkg + ".Repo"}
	if rapid.Bool().Draw(t, "shortImportFirst") {
		imps[0], imps[1] = imps[1], imps[0]
	}
	w := &jw{}
	w.f("package %s;\n\nimport %s;\nimport %s;\n\npublic class AuditArchive extends Repo {\n    private Repo repo;\n    private OrderRepo orderRepo;\n\n", auditPkg, imps[0], imps[1])
	w.f("    public int load() {\n        repo.count();\n        orderRepo.count();\n        return super.load();\n    }\n\n")
	w.f("    public int sum(Repo other) {\n        other.load();\n        orderRepo.find(1);\n        this.load();\n        return 1;\n    }\n}\n")
	files = append(files, jgen.File{Path: "com/acme/shop/audit/AuditArchive.java", Text: w.b.String()})
	return files, []string{auditPkg + ".AuditArchive.load", auditPkg + ".AuditArchive.sum", legacyPkg + ".Repo.load"}
}

// wideService: a service with 17-40 methods, most of which may return null: more nullable
// methods, life-cycle groups, return-type groups and long parameter lists than fit one map bucket
// (8), and than 16 / 32.
func wideService(t *rapid.T) (jgen.File, []string) {
	w := &jw{}
	w.f("package %s;\n\npublic class BulkService {\n    private OrderRepo orderRepo;\n\n", shopPkg)
	n := rapid.SampledFrom([]int{17, 21, 33, 40}).Draw(t, "nBulkMethods")
	verbs := []string{"ship", "cancel", "refund", "archive", "print"}
	nouns := []string{"Order", "Item", "Batch"}
	var roots []string
	for i := 0; i < n; i++ {
		ret := rapid.SampledFrom([]string{"Order", "Item", "Order", "String", "void"}).Draw(t, "bulkRet")
		name := fmt.Sprintf("%s%s%d", verbs[i%len(verbs)], nouns[i%len(nouns)], i)
		w.f("    public %s %s(%s) {\n        orderRepo.find(%d);\n", ret, name, paramList(longParams[:i%7]), i)
		switch ret {
		case "void":
		case "String":
			w.f("        return \"s\";\n")
		default:
			w.f("        return null;\n")
		}
		w.f("    }\n\n")
		if i < 3 {
			roots = append(roots, shopPkg+".BulkService."+name)
		}
	}
	w.f("}\n")
	return jgen.File{Path: "com/acme/shop/BulkService.java", Text: w.b.String()}, roots
}

// manyTests: a test class with 21-26 small tests, so that more than twenty test smells are found
// (`coca tbs` prints its table only up to twenty).
func manyTests(t *rapid.T) jgen.File {
	w := &jw{}
	w.f("package %s;\n\nimport org.junit.Test;\nimport org.junit.Ignore;\nimport static org.junit.Assert.assertEquals;\n\npublic class ShopBulkTest {\n", shopPkg)
	n := rapid.IntRange(21, 26).Draw(t, "nBulkTests")
	for i := 0; i < n; i++ {
		switch rapid.IntRange(0, 3).Draw(t, "bulkTestKind") {
		case 0:
			w.f("    @Test\n    public void empty%d() {\n    }\n\n", i)
		case 1:
			w.f("    @Ignore\n    public void skipped%d() {\n        OrderRepo repo = new OrderRepo();\n        assertEquals(1, repo.count());\n    }\n\n", i)
		case 2:
			w.f("    @Test\n    public void blind%d() {\n        OrderRepo repo = new OrderRepo();\n        repo.count();\n        repo.find(%d);\n    }\n\n", i, i)
		default:
			w.f("    @Test\n    public void same%d() {\n        assertEquals(%d, %d);\n        assertEquals(1, 1);\n    }\n\n", i, i, i)
		}
	}
	w.f("}\n")
	return jgen.File{Path: "com/acme/shop/ShopBulkTest.java", Text: w.b.String()}
}

func genShopExtras(t *rapid.T, hasUtil bool) shopExtras {
	var x shopExtras
	if lv := rapid.IntRange(0, 2).Draw(t, "dupNameLevel"); lv > 0 {
		fs, rs := dupNameFiles(t, lv)
		x.files, x.roots = append(x.files, fs...), append(x.roots, rs...)
	}
	if lv := rapid.IntRange(0, 2).Draw(t, "diLevel"); lv > 0 {
		fs, rs := diFiles(t, lv)
		x.files, x.roots = append(x.files, fs...), append(x.roots, rs...)
	}
	if rapid.Bool().Draw(t, "hasSubclass") {
		f, rs := inheritFile(t)
		x.files, x.roots = append(x.files, f), append(x.roots, rs...)
	}
	if rapid.Bool().Draw(t, "hasJobs") {
		f, rs := jobsFile(t, hasUtil)
		x.files, x.roots = append(x.files, f), append(x.roots, rs...)
		x.hasJobs = true
	}
	nHuge := rapid.SampledFrom([]int{0, 0, 0, 1, 2}).Draw(t, "nHuge")
	for i := 0; i < nHuge; i++ {
		x.files = append(x.files, hugeClass(t, i))
	}
	nIgnore := rapid.SampledFrom([]int{0, 0, 1, 2, 3}).Draw(t, "nIgnore")
	kinds := append([]string(nil), smellKinds...)
	for i := 0; i < nIgnore; i++ {
		k := rapid.IntRange(0, len(kinds)-1).Draw(t, "ignoreKind")
		x.ignore = append(x.ignore, kinds[k])
		kinds = append(kinds[:k:k], kinds[k+1:]...)
	}
	// shapes added later, each behind its own draw
	if rapid.IntRange(0, 2).Draw(t, "secondSourceRoot") == 2 {
		x.files = append(x.files, secondRootFiles(t)...)
	}
	if rapid.IntRange(0, 2).Draw(t, "suffixImports") == 2 {
		fs, rs := suffixImportFiles(t)
		x.files, x.roots = append(x.files, fs...), append(x.roots, rs...)
	}
	if rapid.IntRange(0, 3).Draw(t, "wideService") == 3 {
		f, rs := wideService(t)
		x.files, x.roots = append(x.files, f), append(x.roots, rs...)
	}
	if rapid.IntRange(0, 3).Draw(t, "manyTests") == 3 {
		x.files = append(x.files, manyTests(t))
	}
	return x
}

// moreTests: further test methods for a test class: two groups of five calls whose assertion
// group is written first, a redundant assertion, a sleep in a helper.
// (kind 10: four groups of five calls, two of them assertions)
func extraTestMethod(w *jw, kind, i int) {
	switch kind {
	case 8:
		w.f("    @Test\n    public void grouped%d() {\n        OrderRepo repo = new OrderRepo();\n", i)
		for l := 0; l < 5; l++ {
			w.f("        assertTrue(true);\n")
		}
		for l := 0; l < 5; l++ {
			w.f("        repo.find(%d);\n", l)
		}
		w.f("        repo.count();\n    }\n\n")
	case 9:
		w.f("    @Test\n    public void redundant%d() {\n        assertEquals(1, 1);\n        assertTrue(true);\n    }\n\n", i)
	default:
		w.f("    @Test\n    public void threeGroups%d() {\n        OrderRepo repo = new OrderRepo();\n", i)
		for l := 0; l < 5; l++ {
			w.f("        repo.save(new Order());\n        repo.drop(%d);\n        assertTrue(true);\n        assertEquals(%d, repo.count());\n", l, l)
		}
		w.f("    }\n\n")
	}
}

func joinIgnore(kinds []string) string { return strings.Join(kinds, ",") }
