// C14 — commit-log parsing preserves every commit and every file change.
package c14

import (
	"encoding/json"
	"fmt"
	"os"
	"os/exec"
	"path/filepath"
	"sort"
	"strings"
	"testing"

	"github.com/modernizing/coca/pkg/application/git"
	"pgregory.net/rapid"

	"verif/internal/cli"
	"verif/internal/ggen"
	"verif/internal/pbt"
)

// RealCase: the history is built with real git; `coca git` runs inside the repository.
type RealCase struct {
	History ggen.History `json:"history"`
	// NoCLI leaves out the `coca git` entry point (feature switch cli_git_log_invocation of a known finding)
	NoCLI bool `json:"no_cli,omitempty"`
	// Mailmap: lines of a .mailmap file put into the work tree before `coca git` runs (%aN prints the mapped names)
	Mailmap []MailMap `json:"mailmap,omitempty"`
	// Args: further options of `coca git` (summaries printed to stdout; commits.json is written whatever they say)
	Args []string `json:"args,omitempty"`
	// Subdir: `coca git` runs in the first directory of the checked-out tree instead of the top level
	Subdir bool `json:"subdir,omitempty"`
}

// EmuCase: the log text comes from the format emulator; Hashes are the abbreviated hashes
// of the reachable commits in log order.
type EmuCase struct {
	History ggen.History `json:"history"`
	Hashes  []string     `json:"hashes"`
}

func options() ggen.Options {
	return ggen.Options{
		Merges: true, Empty: true, Binary: true,
		BracketHex:        !pbt.Excluded("subject_bracketed_hex"),
		RepeatAuthor:      !pbt.Excluded("subject_repeats_author"),
		RepeatDate:        !pbt.Excluded("subject_repeats_date"),
		NumericSpacePaths: !pbt.Excluded("path_numeric_space"),
		// widened later: executable files (mode 100755 in the summary lines), files of hundreds of lines
		// (three- and four-digit numstat figures), names that are a prefix / suffix of another name,
		// commits that import 10-30 files at once, author names with inner punctuation, up to 6 authors,
		// path components that begin with a blank
		ExecFiles: true, ModeChanges: true, BigFiles: true, AffixNames: true, BulkAdds: true, PunctAuthors: true, MaxAuthors: 6,
		LeadingBlankPaths: !pbt.Excluded("path_leading_blank"),
		// widened after seed C14-r3: subjects that git and the hosting services write (merge subjects, Revert,
		// fixup!, ..) on commits of every kind, and squash commits that take over the side branch
		ToolSubjects: true, SquashMerges: true,
		// widened after seed C14-r4: blanks at the END of a log line (path components that end with blanks or
		// consist of blanks, twins that differ from another path only by such blanks), runs of blanks inside a
		// component, and commits without a message (the commit line then ends with the blank after the date)
		TrailingBlankPaths: true, BlankRunPaths: true, EmptySubjects: true,
		// widened after seed C14-r5: paths git prints in C notation between double quotes (bytes above 0x7e, double
		// quote, backslash, tab, line break and other control characters): "as git prints them" is the quoted spelling,
		// on the numstat line and on the summary lines alike
		QuotedPaths: true,
	}
}

// genHashes draws distinct abbreviated hashes: mostly 7-10 hex digits, sometimes the 11-16 digits git
// uses in large repositories, now and then a full 40-digit name.
func genHashes(t *rapid.T, n int) []string {
	seen := map[string]bool{}
	var out []string
	for len(out) < n {
		var h string
		switch rapid.IntRange(0, 9).Draw(t, "hashLength") {
		case 8:
			h = rapid.StringMatching(`[0-9a-f]{11,16}`).Draw(t, "hash")
		case 9:
			h = rapid.StringMatching(`[0-9a-f]{40}`).Draw(t, "hash")
		default:
			h = rapid.StringMatching(`[0-9a-f]{7,10}`).Draw(t, "hash")
		}
		if seen[h] {
			h = fmt.Sprintf("%s%x", h[:6], len(out)+1)
			if seen[h] {
				continue
			}
		}
		seen[h] = true
		out = append(out, h)
	}
	return out
}

func genReal(t *rapid.T) RealCase {
	c := RealCase{History: genHistory(t, options(), true), NoCLI: pbt.Excluded("cli_git_log_invocation")}
	if c.NoCLI || !decorationsAllowed() {
		return c
	}
	if rapid.IntRange(0, 3).Draw(t, "mailmap") == 3 {
		c.Mailmap = genMailmap(t, c.History)
	}
	if rapid.IntRange(0, 3).Draw(t, "cliFlags") == 3 {
		for i, n := 0, rapid.IntRange(1, 2).Draw(t, "nFlags"); i < n; i++ {
			c.Args = append(c.Args, rapid.SampledFrom(cliFlags).Draw(t, "flag")...)
		}
	}
	c.Subdir = rapid.IntRange(0, 4).Draw(t, "subdir") == 4
	return c
}

func genEmu(t *rapid.T) EmuCase {
	h := genHistory(t, options(), false)
	sim, err := ggen.Simulate(h)
	if err != nil {
		panic("c14: generated history does not simulate: " + err.Error())
	}
	return EmuCase{History: h, Hashes: genHashes(t, len(sim.Log()))}
}

// SeqCase: several logs parsed one after the other in one process, without the reset hook in
// between (the statement is about every call, not about the first call of a process).
type SeqCase struct {
	First  EmuCase `json:"first"`
	Second EmuCase `json:"second"`
}

func genSeq(t *rapid.T) SeqCase {
	one := func() EmuCase {
		o := options()
		o.MaxCommits = 6
		h := genHistory(t, o, false)
		sim, err := ggen.Simulate(h)
		if err != nil {
			panic("c14: generated history does not simulate: " + err.Error())
		}
		return EmuCase{History: h, Hashes: genHashes(t, len(sim.Log()))}
	}
	c := SeqCase{First: one(), Second: one()}
	// now and then the second log carries the same abbreviated hashes as the first one
	if rapid.IntRange(0, 2).Draw(t, "sameHashes") == 2 {
		for i := range c.Second.Hashes {
			if i < len(c.First.Hashes) {
				c.Second.Hashes[i] = c.First.Hashes[i]
			}
		}
		seen := map[string]bool{}
		for i, h := range c.Second.Hashes {
			for seen[h] {
				h = fmt.Sprintf("%s%x", h[:6], i+1)
			}
			seen[h] = true
			c.Second.Hashes[i] = h
		}
	}
	return c
}

// ---- oracle ----------------------------------------------------------------------------

func changeKey(file string, added, deleted int, mode string) string {
	return fmt.Sprintf("%q +%d -%d mode=%q", file, added, deleted, mode)
}

func describe(list []git.CommitMessage) string {
	var sb strings.Builder
	for i, c := range list {
		fmt.Fprintf(&sb, "  #%d rev=%q author=%q date=%q subject=%q\n", i, c.Rev, c.Author, c.Date, c.Message)
		var keys []string
		for _, ch := range c.Changes {
			keys = append(keys, changeKey(ch.File, ch.Added, ch.Deleted, ch.Mode))
		}
		sort.Strings(keys)
		for _, k := range keys {
			fmt.Fprintf(&sb, "       %s\n", k)
		}
	}
	if len(list) == 0 {
		sb.WriteString("  (no commits)\n")
	}
	return sb.String()
}

// compare returns "" when the parsed list is exactly the expected one.
func compare(got []git.CommitMessage, exp []ggen.Expected) string {
	for i := 0; i < len(got) && i < len(exp); i++ {
		g, e := got[i], exp[i]
		if g.Rev != e.Rev {
			return fmt.Sprintf("entry #%d has hash %q; the commit expected at this place is [%s] %q", i, g.Rev, e.Rev, e.Subject)
		}
		if g.Author != e.Author {
			return fmt.Sprintf("commit [%s]: author parsed as %q, git printed %q", e.Rev, g.Author, e.Author)
		}
		if g.Date != e.Date {
			return fmt.Sprintf("commit [%s]: date parsed as %q, git printed %q", e.Rev, g.Date, e.Date)
		}
		if g.Message != e.Subject {
			return fmt.Sprintf("commit [%s]: subject parsed as %q, git printed %q", e.Rev, g.Message, e.Subject)
		}
		var a, b []string
		for _, ch := range g.Changes {
			a = append(a, changeKey(ch.File, ch.Added, ch.Deleted, ch.Mode))
		}
		for _, ch := range e.Changes {
			b = append(b, changeKey(ch.File, ch.Added, ch.Deleted, ch.Mode))
		}
		sort.Strings(a)
		sort.Strings(b)
		if strings.Join(a, "\n") != strings.Join(b, "\n") {
			return fmt.Sprintf("commit [%s] %q: changes parsed as\n    %s\n  git reported\n    %s", e.Rev, e.Subject,
				strings.Join(a, "\n    "), strings.Join(b, "\n    "))
		}
	}
	if len(got) != len(exp) {
		msg := fmt.Sprintf("%d commits parsed, the log has %d non-merge commits with changes", len(got), len(exp))
		if len(got) < len(exp) {
			e := exp[len(got)]
			msg += fmt.Sprintf("; first one missing: [%s] %q", e.Rev, e.Subject)
		} else {
			msg += fmt.Sprintf("; first surplus entry: rev=%q subject=%q", got[len(exp)].Rev, got[len(exp)].Message)
		}
		return msg
	}
	return ""
}

func classify(h ggen.History, sim *ggen.Sim, exp []ggen.Expected) pbt.Verdict {
	features := ggen.Features(sim)
	v := pbt.Verdict{Classes: append(append([]string{}, features...), shapeClasses(h, sim, exp)...)}
	if len(exp) >= 2 {
		v.Classes = append(v.Classes, "commits_with_changes>=2")
	}
	if len(exp) == 0 {
		v.Classes = append(v.Classes, "no_commit_with_changes")
	}
	v.NonTrivial = len(exp) >= 2 && ggen.Special(features)
	raw, _ := json.Marshal(h)
	v.Canon = string(raw)
	return v
}

func parse(text string) ([]git.CommitMessage, string) {
	git.VerifResetGit()
	var got []git.CommitMessage
	p := pbt.Call(func() { got = git.BuildMessageByInput(text) })
	return got, p
}

// gitLog runs the log invocation of cmd/git.go in dir, the way `coca git` started there does.
func gitLog(repo *ggen.Repo, dir string) string {
	cmd := exec.Command("git", ggen.LogArgs...)
	cmd.Dir = dir
	cmd.Env = append(os.Environ(), ggen.HermeticEnv(repo.Home)...)
	out, err := cmd.Output()
	if err != nil {
		ggen.HarnessFatal("git log in %s: %v", dir, err)
	}
	return string(out)
}

// checkCLI runs `coca git` with args in directory sub of the work tree ("" = the top level); logText is what
// the log invocation of cmd/git.go prints there.
func checkCLI(repo *ggen.Repo, sub string, args []string, exp []ggen.Expected, logText string) pbt.Verdict {
	cwd := filepath.Join(repo.Dir, filepath.FromSlash(sub))
	call := "`coca " + strings.Join(append([]string{"git"}, args...), " ") + "`"
	if sub != "" {
		call += fmt.Sprintf(" (started in directory %q of the work tree)", sub)
	}
	res, err := cli.Run("coca", cwd, ggen.HermeticEnv(repo.Home), append([]string{"git"}, args...)...)
	if err != nil {
		ggen.HarnessFatal("cannot run coca: %v", err)
	}
	if res.TimedOut {
		return pbt.Verdict{Skip: true}
	}
	if res.ExitCode != 0 {
		return pbt.Fail("%s exited with status %d in a valid repository\nstdout: %s\nstderr: %s\ngit log:\n%s", call, res.ExitCode, res.Stdout, res.Stderr, logText)
	}
	data, err := os.ReadFile(filepath.Join(cwd, "coca_reporter", "commits.json"))
	if err != nil {
		return pbt.Fail("%s wrote no coca_reporter/commits.json: %v\nstdout: %s\nstderr: %s", call, strings.ReplaceAll(err.Error(), repo.Dir, "<repo>"), res.Stdout, res.Stderr)
	}
	var fromCli []git.CommitMessage
	if err := json.Unmarshal(data, &fromCli); err != nil {
		return pbt.Fail("coca_reporter/commits.json is not a JSON list of commits: %v\n%s", err, data)
	}
	if msg := compare(fromCli, exp); msg != "" {
		return pbt.Fail("%s (commits.json): %s\n-- parsed --\n%s-- git log --pretty=format:'[%%h] %%aN %%ad %%s' --date=short --numstat --reverse --summary --\n%s", call, msg, describe(fromCli), logText)
	}
	return pbt.Verdict{}
}

func checkReal(c RealCase) pbt.Verdict {
	sim, err := ggen.Simulate(c.History)
	if err != nil {
		ggen.HarnessFatal("case does not simulate: %v", err)
	}
	if knownAlike(sim) {
		return pbt.Verdict{Skip: true}
	}
	base := cli.Scratch("c14-")
	defer os.RemoveAll(base)
	repo, err := ggen.Build(base, sim)
	if err != nil {
		ggen.HarnessFatal("cannot build the repository: %v", err)
	}
	if err := ggen.Validate(sim, repo); err != nil {
		ggen.HarnessFatal("%v", err)
	}
	pbt.Count("emulator_validated_against_git", 1)
	exp := ggen.Expect(sim, repo.Hashes)
	logText := repo.LogOut
	var extra []string

	// a .mailmap file in the work tree: %aN prints the mapped names, and those are the names git prints
	if len(c.Mailmap) > 0 {
		if err := os.WriteFile(filepath.Join(repo.Dir, ".mailmap"), []byte(mailmapText(c.Mailmap)), 0644); err != nil {
			ggen.HarnessFatal("cannot write .mailmap: %v", err)
		}
		mapped, err := ggen.Simulate(applyMailmap(c.History, c.Mailmap))
		if err != nil {
			ggen.HarnessFatal("case does not simulate: %v", err)
		}
		logText = gitLog(repo, repo.Dir)
		if emu := ggen.Emulate(mapped, repo.Hashes); emu != logText {
			ggen.HarnessFatal("format emulator disagrees with git log under the mailmap\n%s--- git log ---\n%s\n--- emulator ---\n%s\n--- end ---", mailmapText(c.Mailmap), logText, emu)
		}
		pbt.Count("mailmap_validated_against_git", 1)
		exp = ggen.Expect(mapped, repo.Hashes)
		extra = append(extra, "mailmap_in_work_tree")
		if c.Mailmap[0].From == "" {
			extra = append(extra, "mailmap_line_with_address_only")
		}
		if logText != repo.LogOut {
			extra = append(extra, "mailmap_changes_a_printed_author")
		}
	}
	sub := ""
	if c.Subdir {
		for _, p := range sim.HeadTree().Paths() {
			if i := strings.Index(p, "/"); i > 0 {
				sub = p[:i]
				break
			}
		}
		if sub != "" {
			if there := gitLog(repo, filepath.Join(repo.Dir, filepath.FromSlash(sub))); there != logText {
				ggen.HarnessFatal("git log prints something else in directory %q:\n%s\n--- at the top level ---\n%s", sub, there, logText)
			}
			extra = append(extra, "coca_git_started_in_a_subdirectory")
		}
	}
	if len(c.Args) > 0 {
		extra = append(extra, "coca_git_with_further_options")
	}

	// entry point 1: the CLI, exactly as a user runs it
	if !c.NoCLI {
		if v := checkCLI(repo, sub, c.Args, exp, logText); v.Violation != "" || v.Skip {
			return v
		}
	}

	// entry point 2: the parser on the output of real git
	got, p := parse(logText)
	if p != "" {
		return pbt.Fail("BuildMessageByInput panicked on real git output: %s\n-- git log --\n%s", p, logText)
	}
	if msg := compare(got, exp); msg != "" {
		return pbt.Fail("BuildMessageByInput(real git log): %s\n-- parsed --\n%s-- git log --\n%s", msg, describe(got), logText)
	}
	v := classify(c.History, sim, exp)
	v.Classes = append(v.Classes, extra...)
	return v
}

// confirm rebuilds the history of a failing emulated case with real git and compares the
// emulator with it, so that no violation is ever reported from text git would not print.
func confirm(sim *ggen.Sim) {
	base := cli.Scratch("c14-confirm-")
	defer os.RemoveAll(base)
	repo, err := ggen.Build(base, sim)
	if err != nil {
		ggen.HarnessFatal("cannot build the repository: %v", err)
	}
	if err := ggen.Validate(sim, repo); err != nil {
		ggen.HarnessFatal("%v", err)
	}
	pbt.Count("failing_emulated_case_confirmed_with_git", 1)
}

// knownAlike: the case belongs to the input class of the known finding same_text_changes (two
// changes of one commit that git prints with the same text). While that finding is listed, such a
// case is kept out of the generated search (counted), also when it arises by coincidence from
// other shapes; the pinned case of the finding is still judged when it is replayed.
func knownAlike(sim *ggen.Sim) bool {
	if pbt.InReplay() || !pbt.Excluded("same_text_changes") {
		return false
	}
	for _, c := range sim.Log() {
		if len(c.Parents) >= 2 {
			continue
		}
		seen := map[string]bool{}
		for _, e := range c.Entries {
			if seen[e.Printed()] {
				pbt.Count("cases_left_out_as_known_finding_same_text_changes", 1)
				return true
			}
			seen[e.Printed()] = true
		}
	}
	return false
}

func checkEmu(c EmuCase) pbt.Verdict {
	sim, err := ggen.Simulate(c.History)
	if err != nil {
		ggen.HarnessFatal("case does not simulate: %v", err)
	}
	if len(c.Hashes) != len(sim.Log()) {
		ggen.HarnessFatal("case has %d hashes for %d commits", len(c.Hashes), len(sim.Log()))
	}
	if knownAlike(sim) {
		return pbt.Verdict{Skip: true}
	}
	exp := ggen.Expect(sim, c.Hashes)
	text := ggen.Emulate(sim, c.Hashes)
	got, p := parse(text)
	msg := ""
	if p != "" {
		msg = "BuildMessageByInput panicked: " + p
	} else if d := compare(got, exp); d != "" {
		msg = "BuildMessageByInput(emulated git log): " + d + "\n-- parsed --\n" + describe(got)
	}
	if msg != "" {
		confirm(sim)
		return pbt.Fail("%s-- log text (format emulator, confirmed against real git for this history) --\n%s", msg, text)
	}
	return classify(c.History, sim, exp)
}

func parseNoReset(text string) ([]git.CommitMessage, string) {
	var got []git.CommitMessage
	p := pbt.Call(func() { got = git.BuildMessageByInput(text) })
	return got, p
}

// checkSeq: log A, log B, log A again through BuildMessageByInput in one process. Every call must
// give its own log's commits, and a list handed out earlier must not change afterwards.
func checkSeq(c SeqCase) pbt.Verdict {
	type side struct {
		sim  *ggen.Sim
		exp  []ggen.Expected
		text string
	}
	mk := func(e EmuCase) side {
		sim, err := ggen.Simulate(e.History)
		if err != nil {
			ggen.HarnessFatal("case does not simulate: %v", err)
		}
		if len(e.Hashes) != len(sim.Log()) {
			ggen.HarnessFatal("case has %d hashes for %d commits", len(e.Hashes), len(sim.Log()))
		}
		return side{sim, ggen.Expect(sim, e.Hashes), ggen.Emulate(sim, e.Hashes)}
	}
	a, b := mk(c.First), mk(c.Second)
	if knownAlike(a.sim) || knownAlike(b.sim) {
		return pbt.Verdict{Skip: true}
	}
	git.VerifResetGit()
	fail := func(what, msg string, got []git.CommitMessage, s side) pbt.Verdict {
		confirm(a.sim)
		confirm(b.sim)
		return pbt.Fail("%s: %s\n-- parsed --\n%s-- its log text --\n%s\n-- the first log --\n%s\n-- the second log --\n%s", what, msg, describe(got), s.text, a.text, b.text)
	}
	gotA, p := parseNoReset(a.text)
	if p != "" {
		return fail("first log", "BuildMessageByInput panicked: "+p, nil, a)
	}
	if d := compare(gotA, a.exp); d != "" {
		return fail("first log", d, gotA, a)
	}
	gotB, p := parseNoReset(b.text)
	if p != "" {
		return fail("second log, parsed after the first one in the same process", "BuildMessageByInput panicked: "+p, nil, b)
	}
	if d := compare(gotB, b.exp); d != "" {
		return fail("second log, parsed after the first one in the same process", d, gotB, b)
	}
	if d := compare(gotA, a.exp); d != "" {
		return fail("commit list returned for the first log, read again after the second log was parsed", d, gotA, a)
	}
	gotA2, p := parseNoReset(a.text)
	if p != "" {
		return fail("first log parsed a second time", "BuildMessageByInput panicked: "+p, nil, a)
	}
	if d := compare(gotA2, a.exp); d != "" {
		return fail("first log parsed a second time", d, gotA2, a)
	}
	if d := compare(gotB, b.exp); d != "" {
		return fail("commit list returned for the second log, read again after a later call", d, gotB, b)
	}
	if d := compare(gotA, a.exp); d != "" {
		return fail("commit list returned by the first call, read again after two later calls", d, gotA, a)
	}
	v := classify(c.Second.History, b.sim, b.exp)
	v.NonTrivial = v.NonTrivial && len(a.exp) >= 1
	raw, _ := json.Marshal(c)
	v.Canon = string(raw)
	if n := len(a.sim.Log()); n > 0 && len(a.sim.Log()[n-1].Entries) == 0 {
		v.Classes = append(v.Classes, "first_log_ends_with_a_commit_without_changes")
	}
	return v
}

func init() {
	pbt.SetProperty("C14")
	pbt.Describe("rapid-generated operation lists: 1-12 commits by 1-6 authors (names with spaces, digits, non-ASCII, inner punctuation such as dependabot[bot] or Jean-Luc O'Neil), up to 5 live files per branch plus, now and then, an import of 9-24 files in one commit; per commit 1-5 operations (add text/binary file, plain or executable, of 1-12 or of 100-1400 lines, modify = drop/insert lines and/or flip the executable bit, delete, rename: other name / other directory / to the root / one directory up / down / first or inner directory component replaced / directory put in front, unchanged, lightly edited or rewritten so that git shows delete+create); paths with blanks (also at the beginning of a component or of the whole path; since seed C14-r4 also at the END of a component or of the whole path, one or two of them: `notes `, `old /keep `, `g.txt  `, at both ends: ` x `, file names of one or two blanks and directory names of three blanks: ` `, `  `, `a/   /f.txt`, runs of two blanks inside a component: `two  blanks.md`, `d  ir`, and twins = a new path that differs from a path of the tree, possibly one touched by the same commit, only by blanks appended to one of its components: `f.txt` next to `f.txt `, `a/b/f.txt` next to `a /b/f.txt`; such names are also rename sources and targets and replaced directory components), nested directories, number-then-blank components, names that are a prefix or a suffix of another name (f.txt / f.txt.orig / xf.txt), re-creation of deleted paths; empty commits, a side branch that ends in a merge commit (clean by construction), in a squash commit (one parent, the side branch's net change as its diff, as after `git merge --squash`; the side commits stay unreachable) or is left unmerged; subjects from a token grammar (words, conventional prefixes with/without scope, [text], [hex], bare hex words, ->, =>, other dates, the commit's own date, the author's name, colons, quotes, non-ASCII) and, on commits of every kind (ordinary, empty, squash, side branch, first, last, true merge), the subjects git and the hosting services write: Merge branch 'b' [of url] [into c], Merge branches 'b' and 'c', Merge tag 't', Merge commit '<hex>', Merge pull request #n from user/b, Merge remote-tracking branch 'origin/b', Merge <hex> into <hex>, Merged in b (pull request #n), Merged PR n: text, and Revert \"s\", Reapply \"s\", Revert \"Revert \"s\"\", fixup! / squash! / amend! s, Squashed commit of the following:, Initial commit, WIP on b: <hex> s, index on b: <hex> s, Bump pkg from 1.2.3 to 1.2.4, Create / Update / Delete / Rename <file>, Release v1.2.3, s (#n), Cherry-pick <hex>: s, where s is the subject of an earlier commit of the history or plain words (a true merge otherwise carries Merge branch 'side' or a grammar subject; the subject never decides whether a commit is a merge: its parents do); now and then a commit of any kind has no message at all (git commit --allow-empty-message: %s is empty, the commit line ends with the blank after the date); author dates in four time zones. The operation list is simulated (file trees with globally unique lines, tree diff, git's rename pairing and similarity estimate, git's rename notation) which yields both the expected commit list and the emulated log text. 'cli' cases build the repository with real git (git commit with GIT_AUTHOR_*/GIT_COMMITTER_* fixed), validate simulation and emulator against it (git diff-tree --numstat -M per commit, rev-list, ls-tree, git log byte for byte), run the built `coca git` inside it and read coca_reporter/commits.json, and feed the real log text to BuildMessageByInput; 'emu' cases feed emulated log text to BuildMessageByInput, with abbreviated hashes of 7-16 or of 40 digits; 'seq' cases parse the emulated logs of two histories (which now and then carry the same hashes) as A, B, A in one process without the reset hook in between: every call must give its own log's commits, and a list handed out by an earlier call must still read the same after later calls. Expected: in log order one entry per reachable non-merge commit with at least one changed path, with hash, author, date, subject as printed, and the multiset of (path as printed by numstat, added, deleted, create/delete/\"\" mode), binary = 0/0. Non-trivial = at least 2 commits with changes and at least one of: rename, delete, binary file, path with a blank, path printed C-quoted, subject with a special token (a merge-like or other tool-written subject on a non-merge commit counts as one); distinct = hash of the operation list. "+
		"CHECKLIST AUDIT, on top of the above (the drawn operation list is re-spelled consistently afterwards, each family behind its own draw): (a) ~30 % of the cases: 1-3 path components are re-spelled wherever they occur, as directory or as file name, as text that resembles the log's own syntax (`a => b`, `{a => b}`, `{ => x}`, `=>`, `{`, `}`, `f (100%)`, `g (50%)`, `(87%)`, `mode 100644 f`, `create mode 100644 f.txt`, `delete mode 100755 x`, `rename a => b (100%)`, `mode change 100644 => 100755 m`, `create`, `mode`, `[abc1234] Ann Lee 2015-01-04 add`, `[deadbeef]`, `2015-01-04`, `- - bin`, `12`, `0`, `-`, `--`, `-1`), as other printable ASCII punctuation git prints unquoted ($ _ # @ + , ; ' & ! ~ % = : ( ) [ ] < > ^ * ? | and the back quote), as one-letter and dot names (`q`, `...`, `x.`, `.hidden`, `-rf`), as case variants / one character shorter or longer variants of pool names or of another component of the same history (`F.TXT` next to `f.txt`, `sub2`, `su`, `f.txt~`, `f.txt (100%)`, `{f.txt => f.txt}`), as one component of 247 bytes, or as 14 nested directory levels; (b) ~20 %: one or two authors get another name in all their commits: one character (`M`, `x`, a CJK letter), a run of two blanks / a tab / a no-break space inside, a bracketed hex word in front (`[abc1234] Bob`, `[bot]`), almost-dates (`v 2020-01`, `x 2020-1-15`, `Ann 2020-01-1 Lee`, `z 2020/01/15`, `Bob 2020`), case variants and extensions of another author of the history (`ann lee`, `Ann Lee Jr`), words of the log syntax (`create mode`, `mode 100644 x`, `1 2 f`, `100%`), 316 bytes; (c) ~20 %: tokens appended to one or two subjects (or taken as the subject of a commit without message): tab-separated numstat look-alikes (`1<TAB>2<TAB>f.txt`, `-<TAB>-<TAB>data.bin`), summary-line look-alikes (`create mode 100644 f.txt`, `rename a => b (100%)`, `mode change 100644 => 100755 x`), a commit-line look-alike, CR / FF / VT inside a word, and subjects that END with white space git does not strip (no-break space, U+3000, U+0085, U+2028, FF, VT; git strips blank, tab, CR, LF only); (d) ~2.5 %: one subject of 4097-9100 bytes, ~1 %: of 65537-70600 bytes (one log line longer than 64 KiB); (e) ~20 %: the renames of the history also flip the executable bit (git then prints ` mode change 100644 => 100755` WITHOUT a path after the rename line); (f) ~3 %: one commit imports 26-70 further files (31/32/33 and 63/64/65 on purpose), ~1.7 %: the last ordinary commit adds a text file of 10000-13000 or of 100000 lines (numstat figures of five and six digits), ~3 % of the emulated logs have up to 100 commits; (g) 'cli' only: in half of the cases a third of the commits carry a message body (`git commit -m subject -m body`; paragraphs that look like numstat, summary or commit lines, trailers; %s prints none of it), ~7 % of the histories are padded with 20-60 further one-file commits (logs of more than 16, 32, 64 commits by construction), ~25 % have a .mailmap file in the work tree (one or two lines `To <mapped@example.org> From <author@example.org>`, To also another author of the history, or one line with the address only, which maps every generated author): the expected author is then the name %aN prints, and the real `git log` under that mailmap is compared byte for byte with the emulator fed the mapped names before anything is judged; ~25 % give `coca git` further options that only print summaries (-b -t -a -o -m -f -s N, long and joined spellings), ~20 % start `coca git` in the first directory of the work tree instead of the top level (coca_reporter is then read there; git log prints the same text there, which is checked). "+
		"SEED C14-r5, on top of the above, in all three routes: paths git prints C-quoted. (h) one history in four draws its directories, file names and rename components also from pools of such names (`d\u00e4`, `a/s\u00fcb dir`, `\u6587\u6863/sub`, `tab<TAB>dir`, `q\"d`, `a/back\\dir`, `nl<LF>d/x`; `sp\u00e4t.txt`, `\u6587\u6863.md`, an emoji, `\u00e9.txt` next to `e<U+0301>.txt`, `say \"hi\".txt`, `\"all\"`, `back\\slash.txt`, the literal text `\\303\\244.txt`, `a\\tb` next to `a<TAB>b`, names with LF, CR, BEL, ESC, DEL inside, a name of one two-byte character), so that they are created, modified, chmod-ed, deleted, re-created, binary, twins with blanks appended, and renamed in every direction: a rename with a quoted path on one side or on both is printed `old => new` with full paths (no braces, also inside a common directory), next to brace renames of plain paths in the same log; (i) ~10 % of all cases re-spell one or two components (directory or file name, wherever they occur) as a name that needs the quoting: look-alikes of the log syntax (`\u00e4 => b`, `{\u00e4 => b}`, `a => \"b\"`, `create mode 100644 \u00e4.txt`, `[abc1234] Zo\u00eb 2015-01-04 add`, `1<TAB>2<TAB>f.txt`, `x<LF>[abc1234] Bob 2015-01-04 fake`, `x<LF>1<TAB>0<TAB>f.txt`), names made of quotes, backslashes or one control character only (`\"`, `\"\"`, `\\`, `\\\\`, `\\\"`, LF, TAB, CR), the text of the notation as a name (`\"f.txt\"` next to `f.txt`, `sp\\303\\244t.txt`, `\\n`, `\\001`, `C:\\dir`), blanks at the edges inside the quotes, the bytes at the borders of the quoted ranges (0x01, 0x1f, 0x7f next to `~`, U+0080, U+00FF, U+07FF, U+0800, U+FFFF, U+10000, U+10FFFF, a lone combining accent, no-break space, U+2028), other scripts and a ZWJ emoji sequence, a component of 247 bytes that is printed with 885, and variants of another component of the same history (s + `\u00e4`, `\u00e9` + s, s + quote / TAB / LF / backslash / no-break space, `\"s\"`, the printed form of s taken as a name, a combining diaeresis inside). The emulator reproduces git's quoting byte for byte; as before it is compared with real git (numstat of diff-tree, ls-tree, the whole log text) at start-up, in every 'cli' case and for every failing emulated case. (j) two changes of one commit that git prints with the same text (found by the thorough tier as a coincidence of (a), now made by construction in ~4 % of the emulated and ~12 % of the 'cli' cases, feature switch same_text_changes): the commit of a rename whose text is unquoted (`{a => b}/f.txt`, `a/{sub => }/f.txt`, `f.txt => g.txt`) also creates the file whose path is that text, or modifies or deletes it after an earlier commit of the same lane has created it; the log then has two numstat lines with one text and ` rename T (n%)` next to ` create mode 100644 T` / ` delete mode 100644 T`, in either order; expected are both changes, the create/delete mode on the one that is not the rename (git prints the summary lines in the order of the numstat lines).",
		"a path is any sequence of components a Linux file system and git accept that is valid UTF-8 (a case is stored as JSON, so single bytes above 0x7f that form no UTF-8 sequence are not visited) and holds no NUL byte: printable ASCII with blanks anywhere in a component, also as its only characters, and - since seed C14-r5 - the double quote, the backslash, control characters (tab, line break, CR, BEL, ESC, DEL, ..) and characters outside ASCII. git prints a path with one of the latter in C notation between double quotes (core.quotepath is left at its default, true), on the numstat line and on the summary lines alike; the statement asks for the path as git prints it, so the quoted spelling is the expected value (`\"sp\\303\\244t.txt\"`), and for a rename that involves such a path the text `old => new` with each side quoted where it needs it, which is what git prints instead of the brace notation. No component is `.git*`, `git~*`, `.mailmap` or `coca_reporter`; files are regular files with mode 100644 or 100755 (no symlinks, no submodules: the quantifier lists neither)",
		"author names contain no date-shaped text (\\d{4}-\\d{2}-\\d{2} anywhere inside: the commit line could then be read in two ways); no < > or line break and none of . , : ; \" ' \\ or white space at the ends (git removes those); subjects are one paragraph of one line, without blank, tab, CR or LF at the ends (git strips them from %s), either empty or beginning with a character other than blank and tab; tab, CR, FF, VT inside and any other white space anywhere are kept by git and generated; a message body is a separate paragraph and exists only next to a non-empty subject",
		"a .mailmap line names the address all generated authors share; names in it compare without regard to ASCII case, as in git; the repository configuration is git's default apart from the harness settings (no core.abbrev, core.quotepath, log.* or color settings)",
		"every pairing of a deleted with an added file is unambiguous by construction (all lines globally unique, added files never empty), so git's rename detection has exactly one possible result, which the simulation reproduces with git's span-hash similarity estimate; this is checked against real git in every 'cli' case, in a start-up self-test, and for every failing 'emu' case before it is reported",
		"committer dates increase with the commit index, so the log order is the creation order of the reachable commits",
		"`coca git` and all harness git calls run with HOME pointing to an empty directory and system/global git configuration disabled")
	// the fast check first: parser defects are found and shrunk in seconds there
	pbt.Register("emu", 3000, 20000, genEmu, checkEmu)
	pbt.Register("seq", 300, 4000, genSeq, checkSeq)
	pbt.Register("cli", 60, 150, genReal, checkReal)
}

func selfTest(t *testing.T, n int) {
	base := cli.Scratch("c14-self-")
	defer os.RemoveAll(base)
	if err := ggen.SelfTestWith(base, n, options()); err != nil {
		fmt.Printf("HARNESS-ERROR (not a violation): %v\n", err)
		t.Fatalf("HARNESS-ERROR: the git history generator disagrees with real git")
	}
}

func TestProp(t *testing.T) {
	selfTest(t, 8)
	pbt.Main(t)
}

func TestReplay(t *testing.T) {
	if os.Getenv("VERIF_REPLAY") != "" {
		selfTest(t, 0)
	}
	pbt.Replay(t)
}
