// C14 — commit-log parsing preserves every commit and every file change.
package c14

import (
	"encoding/json"
	"fmt"
	"os"
	"path/filepath"
	"sort"
	"strings"
	"testing"

	"github.com/modernizing/coca/pkg/application/git"
	"pgregory.net/rapid"

	"verif/internal/cli"
	"verif/internal/ggen"
	"verif/internal/pbt"
)

// RealCase: the history is built with real git; `coca git` runs inside the repository.
type RealCase struct {
	History ggen.History `json:"history"`
	// NoCLI leaves out the `coca git` entry point (feature switch cli_git_log_invocation of a known finding)
	NoCLI bool `json:"no_cli,omitempty"`
}

// EmuCase: the log text comes from the format emulator; Hashes are the abbreviated hashes
// of the reachable commits in log order.
type EmuCase struct {
	History ggen.History `json:"history"`
	Hashes  []string     `json:"hashes"`
}

func options() ggen.Options {
	return ggen.Options{
		Merges: true, Empty: true, Binary: true,
		BracketHex:        !pbt.Excluded("subject_bracketed_hex"),
		RepeatAuthor:      !pbt.Excluded("subject_repeats_author"),
		RepeatDate:        !pbt.Excluded("subject_repeats_date"),
		NumericSpacePaths: !pbt.Excluded("path_numeric_space"),
		// widened later: executable files (mode 100755 in the summary lines), files of hundreds of lines
		// (three- and four-digit numstat figures), names that are a prefix / suffix of another name,
		// commits that import 10-30 files at once, author names with inner punctuation, up to 6 authors,
		// path components that begin with a blank
		ExecFiles: true, ModeChanges: true, BigFiles: true, AffixNames: true, BulkAdds: true, PunctAuthors: true, MaxAuthors: 6,
		LeadingBlankPaths: !pbt.Excluded("path_leading_blank"),
		// widened after seed C14-r3: subjects that git and the hosting services write (merge subjects, Revert,
		// fixup!, ..) on commits of every kind, and squash commits that take over the side branch
		ToolSubjects: true, SquashMerges: true,
		// widened after seed C14-r4: blanks at the END of a log line (path components that end with blanks or
		// consist of blanks, twins that differ from another path only by such blanks), runs of blanks inside a
		// component, and commits without a message (the commit line then ends with the blank after the date)
		TrailingBlankPaths: true, BlankRunPaths: true, EmptySubjects: true,
	}
}

// genHashes draws distinct abbreviated hashes: mostly 7-10 hex digits, sometimes the 11-16 digits git
// uses in large repositories, now and then a full 40-digit name.
func genHashes(t *rapid.T, n int) []string {
	seen := map[string]bool{}
	var out []string
	for len(out) < n {
		var h string
		switch rapid.IntRange(0, 9).Draw(t, "hashLength") {
		case 8:
			h = rapid.StringMatching(`[0-9a-f]{11,16}`).Draw(t, "hash")
		case 9:
			h = rapid.StringMatching(`[0-9a-f]{40}`).Draw(t, "hash")
		default:
			h = rapid.StringMatching(`[0-9a-f]{7,10}`).Draw(t, "hash")
		}
		if seen[h] {
			h = fmt.Sprintf("%s%x", h[:6], len(out)+1)
			if seen[h] {
				continue
			}
		}
		seen[h] = true
		out = append(out, h)
	}
	return out
}

func genReal(t *rapid.T) RealCase {
	return RealCase{History: ggen.Gen(t, options()), NoCLI: pbt.Excluded("cli_git_log_invocation")}
}

func genEmu(t *rapid.T) EmuCase {
	h := ggen.Gen(t, options())
	sim, err := ggen.Simulate(h)
	if err != nil {
		panic("c14: generated history does not simulate: " + err.Error())
	}
	return EmuCase{History: h, Hashes: genHashes(t, len(sim.Log()))}
}

// SeqCase: several logs parsed one after the other in one process, without the reset hook in
// between (the statement is about every call, not about the first call of a process).
type SeqCase struct {
	First  EmuCase `json:"first"`
	Second EmuCase `json:"second"`
}

func genSeq(t *rapid.T) SeqCase {
	one := func() EmuCase {
		o := options()
		o.MaxCommits = 6
		h := ggen.Gen(t, o)
		sim, err := ggen.Simulate(h)
		if err != nil {
			panic("c14: generated history does not simulate: " + err.Error())
		}
		return EmuCase{History: h, Hashes: genHashes(t, len(sim.Log()))}
	}
	c := SeqCase{First: one(), Second: one()}
	// now and then the second log carries the same abbreviated hashes as the first one
	if rapid.IntRange(0, 2).Draw(t, "sameHashes") == 2 {
		for i := range c.Second.Hashes {
			if i < len(c.First.Hashes) {
				c.Second.Hashes[i] = c.First.Hashes[i]
			}
		}
		seen := map[string]bool{}
		for i, h := range c.Second.Hashes {
			for seen[h] {
				h = fmt.Sprintf("%s%x", h[:6], i+1)
			}
			seen[h] = true
			c.Second.Hashes[i] = h
		}
	}
	return c
}

// ---- oracle ----------------------------------------------------------------------------

func changeKey(file string, added, deleted int, mode string) string {
	return fmt.Sprintf("%q +%d -%d mode=%q", file, added, deleted, mode)
}

func describe(list []git.CommitMessage) string {
	var sb strings.Builder
	for i, c := range list {
		fmt.Fprintf(&sb, "  #%d rev=%q author=%q date=%q subject=%q\n", i, c.Rev, c.Author, c.Date, c.Message)
		var keys []string
		for _, ch := range c.Changes {
			keys = append(keys, changeKey(ch.File, ch.Added, ch.Deleted, ch.Mode))
		}
		sort.Strings(keys)
		for _, k := range keys {
			fmt.Fprintf(&sb, "       %s\n", k)
		}
	}
	if len(list) == 0 {
		sb.WriteString("  (no commits)\n")
	}
	return sb.String()
}

// compare returns "" when the parsed list is exactly the expected one.
func compare(got []git.CommitMessage, exp []ggen.Expected) string {
	for i := 0; i < len(got) && i < len(exp); i++ {
		g, e := got[i], exp[i]
		if g.Rev != e.Rev {
			return fmt.Sprintf("entry #%d has hash %q; the commit expected at this place is [%s] %q", i, g.Rev, e.Rev, e.Subject)
		}
		if g.Author != e.Author {
			return fmt.Sprintf("commit [%s]: author parsed as %q, git printed %q", e.Rev, g.Author, e.Author)
		}
		if g.Date != e.Date {
			return fmt.Sprintf("commit [%s]: date parsed as %q, git printed %q", e.Rev, g.Date, e.Date)
		}
		if g.Message != e.Subject {
			return fmt.Sprintf("commit [%s]: subject parsed as %q, git printed %q", e.Rev, g.Message, e.Subject)
		}
		var a, b []string
		for _, ch := range g.Changes {
			a = append(a, changeKey(ch.File, ch.Added, ch.Deleted, ch.Mode))
		}
		for _, ch := range e.Changes {
			b = append(b, changeKey(ch.File, ch.Added, ch.Deleted, ch.Mode))
		}
		sort.Strings(a)
		sort.Strings(b)
		if strings.Join(a, "\n") != strings.Join(b, "\n") {
			return fmt.Sprintf("commit [%s] %q: changes parsed as\n    %s\n  git reported\n    %s", e.Rev, e.Subject,
				strings.Join(a, "\n    "), strings.Join(b, "\n    "))
		}
	}
	if len(got) != len(exp) {
		msg := fmt.Sprintf("%d commits parsed, the log has %d non-merge commits with changes", len(got), len(exp))
		if len(got) < len(exp) {
			e := exp[len(got)]
			msg += fmt.Sprintf("; first one missing: [%s] %q", e.Rev, e.Subject)
		} else {
			msg += fmt.Sprintf("; first surplus entry: rev=%q subject=%q", got[len(exp)].Rev, got[len(exp)].Message)
		}
		return msg
	}
	return ""
}

func classify(h ggen.History, sim *ggen.Sim, exp []ggen.Expected) pbt.Verdict {
	features := ggen.Features(sim)
	v := pbt.Verdict{Classes: features}
	if len(exp) >= 2 {
		v.Classes = append(v.Classes, "commits_with_changes>=2")
	}
	if len(exp) == 0 {
		v.Classes = append(v.Classes, "no_commit_with_changes")
	}
	v.NonTrivial = len(exp) >= 2 && ggen.Special(features)
	raw, _ := json.Marshal(h)
	v.Canon = string(raw)
	return v
}

func parse(text string) ([]git.CommitMessage, string) {
	git.VerifResetGit()
	var got []git.CommitMessage
	p := pbt.Call(func() { got = git.BuildMessageByInput(text) })
	return got, p
}

func checkCLI(repo *ggen.Repo, exp []ggen.Expected) pbt.Verdict {
	res, err := cli.Run("coca", repo.Dir, ggen.HermeticEnv(repo.Home), "git")
	if err != nil {
		ggen.HarnessFatal("cannot run coca: %v", err)
	}
	if res.TimedOut {
		return pbt.Verdict{Skip: true}
	}
	if res.ExitCode != 0 {
		return pbt.Fail("`coca git` exited with status %d in a valid repository\nstdout: %s\nstderr: %s\ngit log:\n%s", res.ExitCode, res.Stdout, res.Stderr, repo.LogOut)
	}
	data, err := os.ReadFile(filepath.Join(repo.Dir, "coca_reporter", "commits.json"))
	if err != nil {
		return pbt.Fail("`coca git` wrote no coca_reporter/commits.json: %v\nstdout: %s\nstderr: %s", err, res.Stdout, res.Stderr)
	}
	var fromCli []git.CommitMessage
	if err := json.Unmarshal(data, &fromCli); err != nil {
		return pbt.Fail("coca_reporter/commits.json is not a JSON list of commits: %v\n%s", err, data)
	}
	if msg := compare(fromCli, exp); msg != "" {
		return pbt.Fail("`coca git` (commits.json): %s\n-- parsed --\n%s-- git log --pretty=format:'[%%h] %%aN %%ad %%s' --date=short --numstat --reverse --summary --\n%s", msg, describe(fromCli), repo.LogOut)
	}
	return pbt.Verdict{}
}

func checkReal(c RealCase) pbt.Verdict {
	sim, err := ggen.Simulate(c.History)
	if err != nil {
		ggen.HarnessFatal("case does not simulate: %v", err)
	}
	base := cli.Scratch("c14-")
	defer os.RemoveAll(base)
	repo, err := ggen.Build(base, sim)
	if err != nil {
		ggen.HarnessFatal("cannot build the repository: %v", err)
	}
	if err := ggen.Validate(sim, repo); err != nil {
		ggen.HarnessFatal("%v", err)
	}
	pbt.Count("emulator_validated_against_git", 1)
	exp := ggen.Expect(sim, repo.Hashes)

	// entry point 1: the CLI, exactly as a user runs it
	if !c.NoCLI {
		if v := checkCLI(repo, exp); v.Violation != "" || v.Skip {
			return v
		}
	}

	// entry point 2: the parser on the output of real git
	got, p := parse(repo.LogOut)
	if p != "" {
		return pbt.Fail("BuildMessageByInput panicked on real git output: %s\n-- git log --\n%s", p, repo.LogOut)
	}
	if msg := compare(got, exp); msg != "" {
		return pbt.Fail("BuildMessageByInput(real git log): %s\n-- parsed --\n%s-- git log --\n%s", msg, describe(got), repo.LogOut)
	}
	return classify(c.History, sim, exp)
}

// confirm rebuilds the history of a failing emulated case with real git and compares the
// emulator with it, so that no violation is ever reported from text git would not print.
func confirm(sim *ggen.Sim) {
	base := cli.Scratch("c14-confirm-")
	defer os.RemoveAll(base)
	repo, err := ggen.Build(base, sim)
	if err != nil {
		ggen.HarnessFatal("cannot build the repository: %v", err)
	}
	if err := ggen.Validate(sim, repo); err != nil {
		ggen.HarnessFatal("%v", err)
	}
	pbt.Count("failing_emulated_case_confirmed_with_git", 1)
}

func checkEmu(c EmuCase) pbt.Verdict {
	sim, err := ggen.Simulate(c.History)
	if err != nil {
		ggen.HarnessFatal("case does not simulate: %v", err)
	}
	if len(c.Hashes) != len(sim.Log()) {
		ggen.HarnessFatal("case has %d hashes for %d commits", len(c.Hashes), len(sim.Log()))
	}
	exp := ggen.Expect(sim, c.Hashes)
	text := ggen.Emulate(sim, c.Hashes)
	got, p := parse(text)
	msg := ""
	if p != "" {
		msg = "BuildMessageByInput panicked: " + p
	} else if d := compare(got, exp); d != "" {
		msg = "BuildMessageByInput(emulated git log): " + d + "\n-- parsed --\n" + describe(got)
	}
	if msg != "" {
		confirm(sim)
		return pbt.Fail("%s-- log text (format emulator, confirmed against real git for this history) --\n%s", msg, text)
	}
	return classify(c.History, sim, exp)
}

func parseNoReset(text string) ([]git.CommitMessage, string) {
	var got []git.CommitMessage
	p := pbt.Call(func() { got = git.BuildMessageByInput(text) })
	return got, p
}

// checkSeq: log A, log B, log A again through BuildMessageByInput in one process. Every call must
// give its own log's commits, and a list handed out earlier must not change afterwards.
func checkSeq(c SeqCase) pbt.Verdict {
	type side struct {
		sim  *ggen.Sim
		exp  []ggen.Expected
		text string
	}
	mk := func(e EmuCase) side {
		sim, err := ggen.Simulate(e.History)
		if err != nil {
			ggen.HarnessFatal("case does not simulate: %v", err)
		}
		if len(e.Hashes) != len(sim.Log()) {
			ggen.HarnessFatal("case has %d hashes for %d commits", len(e.Hashes), len(sim.Log()))
		}
		return side{sim, ggen.Expect(sim, e.Hashes), ggen.Emulate(sim, e.Hashes)}
	}
	a, b := mk(c.First), mk(c.Second)
	git.VerifResetGit()
	fail := func(what, msg string, got []git.CommitMessage, s side) pbt.Verdict {
		confirm(a.sim)
		confirm(b.sim)
		return pbt.Fail("%s: %s\n-- parsed --\n%s-- its log text --\n%s\n-- the first log --\n%s\n-- the second log --\n%s", what, msg, describe(got), s.text, a.text, b.text)
	}
	gotA, p := parseNoReset(a.text)
	if p != "" {
		return fail("first log", "BuildMessageByInput panicked: "+p, nil, a)
	}
	if d := compare(gotA, a.exp); d != "" {
		return fail("first log", d, gotA, a)
	}
	gotB, p := parseNoReset(b.text)
	if p != "" {
		return fail("second log, parsed after the first one in the same process", "BuildMessageByInput panicked: "+p, nil, b)
	}
	if d := compare(gotB, b.exp); d != "" {
		return fail("second log, parsed after the first one in the same process", d, gotB, b)
	}
	if d := compare(gotA, a.exp); d != "" {
		return fail("commit list returned for the first log, read again after the second log was parsed", d, gotA, a)
	}
	gotA2, p := parseNoReset(a.text)
	if p != "" {
		return fail("first log parsed a second time", "BuildMessageByInput panicked: "+p, nil, a)
	}
	if d := compare(gotA2, a.exp); d != "" {
		return fail("first log parsed a second time", d, gotA2, a)
	}
	if d := compare(gotB, b.exp); d != "" {
		return fail("commit list returned for the second log, read again after a later call", d, gotB, b)
	}
	if d := compare(gotA, a.exp); d != "" {
		return fail("commit list returned by the first call, read again after two later calls", d, gotA, a)
	}
	v := classify(c.Second.History, b.sim, b.exp)
	v.NonTrivial = v.NonTrivial && len(a.exp) >= 1
	raw, _ := json.Marshal(c)
	v.Canon = string(raw)
	if n := len(a.sim.Log()); n > 0 && len(a.sim.Log()[n-1].Entries) == 0 {
		v.Classes = append(v.Classes, "first_log_ends_with_a_commit_without_changes")
	}
	return v
}

func init() {
	pbt.SetProperty("C14")
	pbt.Describe("rapid-generated operation lists: 1-12 commits by 1-6 authors (names with spaces, digits, non-ASCII, inner punctuation such as dependabot[bot] or Jean-Luc O'Neil), up to 5 live files per branch plus, now and then, an import of 9-24 files in one commit; per commit 1-5 operations (add text/binary file, plain or executable, of 1-12 or of 100-1400 lines, modify = drop/insert lines and/or flip the executable bit, delete, rename: other name / other directory / to the root / one directory up / down / first or inner directory component replaced / directory put in front, unchanged, lightly edited or rewritten so that git shows delete+create); paths with blanks (also at the beginning of a component or of the whole path; since seed C14-r4 also at the END of a component or of the whole path, one or two of them: `notes `, `old /keep `, `g.txt  `, at both ends: ` x `, file names of one or two blanks and directory names of three blanks: ` `, `  `, `a/   /f.txt`, runs of two blanks inside a component: `two  blanks.md`, `d  ir`, and twins = a new path that differs from a path of the tree, possibly one touched by the same commit, only by blanks appended to one of its components: `f.txt` next to `f.txt `, `a/b/f.txt` next to `a /b/f.txt`; such names are also rename sources and targets and replaced directory components), nested directories, number-then-blank components, names that are a prefix or a suffix of another name (f.txt / f.txt.orig / xf.txt), re-creation of deleted paths; empty commits, a side branch that ends in a merge commit (clean by construction), in a squash commit (one parent, the side branch's net change as its diff, as after `git merge --squash`; the side commits stay unreachable) or is left unmerged; subjects from a token grammar (words, conventional prefixes with/without scope, [text], [hex], bare hex words, ->, =>, other dates, the commit's own date, the author's name, colons, quotes, non-ASCII) and, on commits of every kind (ordinary, empty, squash, side branch, first, last, true merge), the subjects git and the hosting services write: Merge branch 'b' [of url] [into c], Merge branches 'b' and 'c', Merge tag 't', Merge commit '<hex>', Merge pull request #n from user/b, Merge remote-tracking branch 'origin/b', Merge <hex> into <hex>, Merged in b (pull request #n), Merged PR n: text, and Revert \"s\", Reapply \"s\", Revert \"Revert \"s\"\", fixup! / squash! / amend! s, Squashed commit of the following:, Initial commit, WIP on b: <hex> s, index on b: <hex> s, Bump pkg from 1.2.3 to 1.2.4, Create / Update / Delete / Rename <file>, Release v1.2.3, s (#n), Cherry-pick <hex>: s, where s is the subject of an earlier commit of the history or plain words (a true merge otherwise carries Merge branch 'side' or a grammar subject; the subject never decides whether a commit is a merge: its parents do); now and then a commit of any kind has no message at all (git commit --allow-empty-message: %s is empty, the commit line ends with the blank after the date); author dates in four time zones. The operation list is simulated (file trees with globally unique lines, tree diff, git's rename pairing and similarity estimate, git's rename notation) which yields both the expected commit list and the emulated log text. 'cli' cases build the repository with real git (git commit with GIT_AUTHOR_*/GIT_COMMITTER_* fixed), validate simulation and emulator against it (git diff-tree --numstat -M per commit, rev-list, ls-tree, git log byte for byte), run the built `coca git` inside it and read coca_reporter/commits.json, and feed the real log text to BuildMessageByInput; 'emu' cases feed emulated log text to BuildMessageByInput, with abbreviated hashes of 7-16 or of 40 digits; 'seq' cases parse the emulated logs of two histories (which now and then carry the same hashes) as A, B, A in one process without the reset hook in between: every call must give its own log's commits, and a list handed out by an earlier call must still read the same after later calls. Expected: in log order one entry per reachable non-merge commit with at least one changed path, with hash, author, date, subject as printed, and the multiset of (path as printed by numstat, added, deleted, create/delete/\"\" mode), binary = 0/0. Non-trivial = at least 2 commits with changes and at least one of: rename, delete, binary file, path with a blank, subject with a special token (a merge-like or other tool-written subject on a non-merge commit counts as one); distinct = hash of the operation list.",
		"paths consist of letters, digits, '.', '_', '-' and blanks (U+0020, anywhere in a component, also as its only characters) and nothing git would C-quote (no tab, CR or other control character, no non-ASCII white space); files are regular files with mode 100644 or 100755 (no symlinks, no submodules); a rename never changes the mode",
		"author names contain no date-shaped token; punctuation (- ' . [ ] ( ) @) only inside the name, where git keeps it; subjects are single-line, without leading/trailing blanks or tabs (git strips them from %s), either empty or beginning with a non-blank",
		"every pairing of a deleted with an added file is unambiguous by construction (all lines globally unique, added files never empty), so git's rename detection has exactly one possible result, which the simulation reproduces with git's span-hash similarity estimate; this is checked against real git in every 'cli' case, in a start-up self-test, and for every failing 'emu' case before it is reported",
		"committer dates increase with the commit index, so the log order is the creation order of the reachable commits",
		"`coca git` and all harness git calls run with HOME pointing to an empty directory and system/global git configuration disabled")
	// the fast check first: parser defects are found and shrunk in seconds there
	pbt.Register("emu", 3000, 20000, genEmu, checkEmu)
	pbt.Register("seq", 300, 4000, genSeq, checkSeq)
	pbt.Register("cli", 60, 150, genReal, checkReal)
}

func selfTest(t *testing.T, n int) {
	base := cli.Scratch("c14-self-")
	defer os.RemoveAll(base)
	if err := ggen.SelfTestWith(base, n, options()); err != nil {
		fmt.Printf("HARNESS-ERROR (not a violation): %v\n", err)
		t.Fatalf("HARNESS-ERROR: the git history generator disagrees with real git")
	}
}

func TestProp(t *testing.T) {
	selfTest(t, 8)
	pbt.Main(t)
}

func TestReplay(t *testing.T) {
	if os.Getenv("VERIF_REPLAY") != "" {
		selfTest(t, 0)
	}
	pbt.Replay(t)
}
