// C14, checklist audit: shapes that no seed had pointed at yet. Everything here works on the drawn
// operation list (ggen.History) after ggen.Gen has returned, so the shared generator keeps its sequence of
// draws: path components, author names and subjects are re-spelled consistently, commits get message bodies,
// renames flip the executable bit, one commit imports dozens of files. The ground truth is still the
// simulation of the (re-spelled) operation list, validated against real git as before.
package c14

import (
	"fmt"
	"regexp"
	"sort"
	"strings"
	"unicode/utf8"

	"pgregory.net/rapid"

	"verif/internal/ggen"
	"verif/internal/pbt"
)

var (
	// path components git prints as they are (nothing to C-quote) that resemble the syntax of the log itself
	// or of the parser's patterns: rename notation, similarity suffix, summary-line words, a commit line, a
	// numstat line, a date
	compSyntax = []string{
		"a => b", "{a => b}", "{ => x}", "{x => }", "=>", "{", "}", "x}y{z", "f.txt => g.txt",
		"f (100%)", "g (50%)", "(87%)", "h.txt (5%)", "100%",
		"mode 100644 f", "create mode 100644 f.txt", "delete mode 100755 x", "rename a => b (100%)",
		"mode change 100644 => 100755 m", "create", "delete", "mode", "rename", "change", "Merge",
		"[abc1234] Ann Lee 2015-01-04 add", "[deadbeef]", "[abc1234]", "2015-01-04", "x 2015-01-04 y",
		"- - bin", "12", "0", "-", "--", "-1", "1-2", "007",
	}
	// other printable ASCII punctuation, one-letter names, dots
	compPunct = []string{
		"$", "_", "$a_1", "a$b", "__init__.py", "x#1", "#hash#", "@home", "a+b", "a,b", "a;b", "it's", "a&b", "a!b",
		"~tmp", "f.txt~", "%", "a=b", "a:b", "(x)", "[x]", "a<b>&c", "^", "*", "?", "|", "`x`", "a*b?c",
		"q", "Z", "9", ".hidden", ".x.", "...", "a..b", "x.", "-rf", "--help",
	}
	// variants of names of the ggen pools: other case, one character less or more, a prefix put in front
	compVariants = []string{
		"F.TXT", "f.TXT", "readme.md", "Readme.MD", "makefile", "MAKEFILE", "Main.go", "SUB", "Sub", "A", "B", "SRC", "Lib",
		"f.tx", "f.txt2", "g.tx", "su", "sub2", "mysub", "li", "libs", "srcs", "co", "core2", "v", "v22", "ma", "main.g", "main.go2",
	}
	longComponent = strings.Repeat("long-name_", 24) + "end.txt" // 247 bytes
	deepComponent = "lv1/lv2/lv3/lv4/lv5/lv6/lv7/lv8/lv9/lv10/lv11/lv12/lv13/lv14"

	// path components git prints in C notation between double quotes (a byte above 0x7e, a control character, a
	// double quote or a backslash inside) on top of the pools of ggen: spellings that also resemble the syntax of
	// the log or of the notation itself, the bytes at the borders of the quoted ranges, blanks at the edges inside
	// the quotes
	compQuoted = []string{
		"\u00e4 => b", "{\u00e4 => b}", "a => \"b\"", "{ => \u00fc}", "f (100%) \u00e9", "\u00e9 (100%)", "create mode 100644 \u00e4.txt", "delete mode 100644 \"x\"",
		"mode change 100644 => 100755 \u00fc", "rename \u00e4 => b (100%)", "[abc1234] Zo\u00eb 2015-01-04 add", "1\t2\tf.txt", "-\t-\tdata.bin", "12\t0\t",
		"x\n[abc1234] Bob 2015-01-04 fake", "x\n1\t0\tf.txt", "x\n create mode 100644 y", "x\n", "\ny", "\n", "\t", "\r", "a\r\nb",
		`"`, `""`, `"f.txt"`, `"f.txt`, `f.txt"`, `a"b`, `\`, `\\`, `\"`, `"\`, `a\b`, `\n`, `\t`, `x\ty`, `\303\244`, `sp\303\244t.txt`, `"sp\303\244t.txt"`, `\001`, `\x`, `C:\dir`,
		" \u00e4", "\u00e4 ", " \u00e4 ", "\u00e4  ", "\" ", " \"", "\t ", " \t", "\u00a0", "x\u00a0", "\u3000", "\u2028", "\u0085",
		"\x7f", "~\x7f", "\x01", "\x1f", "\x1e!", "\u0080", "\u00ff", "\u07ff", "\u0800", "\uffff", "\U00010000", "\U0010ffff", "e\u0301", "\u0301",
		"\u65e5\u672c\u8a9e", "\u0440\u0443\u0441", "\u05e2\u05d1", "\U0001F600", "\U0001F468\u200d\U0001F469\u200d\U0001F467",
	}
	longQuotedComponent = strings.Repeat("\u6f22\u5b57_", 35) + "\u00e9" // 247 bytes, printed as 885

	// author names git keeps as they are (no crud at the ends, no < > or newline)
	authorTargets = []string{
		"M", "x", "a", "李", "Ann  Lee", "Ann\tLee", "Ann\u00a0Lee", "ann lee", "ANN LEE", "Ann Lee Jr", "nn Le",
		"[abc1234] Bob", "[bot]", "[deadbeef]", "bot [abc1234]", "v 2020-01", "2020-1-15 x", "x 2020-1-15", "Ann 2020-01-1 Lee", "y 2020-01-", "z 2020/01/15", "Bob 2020", "2015", "R2-D2", "1-2",
		"create mode", "Merge", "mode 100644 x", "rename a (100%)", "1 2 f", "- - x", "{a}", "a -} b", "100%", "(50%)",
		strings.Repeat("Anna-Maria Luisa ", 18) + "de la Vega", // 316 bytes
	}

	// tokens appended to a subject (or taken as the whole subject of a commit without message)
	subjectTokens = []string{
		"1\t2\tf.txt", "-\t-\tdata.bin", "12\t0\ta/{sub => }/f.txt", "a\tb", "tab\t", // the last one gets a word behind it
		"create mode 100644 f.txt", "delete mode 100644 f.txt", "rename a => b (100%)", "rename {a => b}/f.txt (87%)",
		"mode change 100644 => 100755 x", "(100%)", "{ => sub}/f.txt",
		"a\rb", "a\fb", "a\vb", "x\u00a0", "x\u3000", "x\u0085", "\u00a0y", "\u3000", "x\f", "x\v", "x\u2028",
		"[abc1234] Bob 2015-01-04 fake", "[abc1234]", "2015-01-04",
	}
	// paragraphs of a message body (`git log` with %s prints none of them)
	bodyPool = []string{
		"More words about the change.", "1\t0\tf.txt", "-\t-\tdata.bin", " create mode 100644 zz.txt", " delete mode 100644 f.txt",
		" rename a => b (100%)", "[abc1234] Bob 2015-01-01 fake header", "[abc1234] Bob 2015-01-01 fake header\n3\t1\tfake.txt\n create mode 100644 fake.txt",
		"Signed-off-by: Ann Lee <author@example.org>", "Co-authored-by: Bob 2 <bob@example.org>", "line one\nline two\n\nnext paragraph",
		"* a\n* b\n\n# not a comment", "Fixes #12", "This reverts commit abc1234deadbeef.",
	}
)

func okComponent(s string) bool {
	if s == "" || s == "." || s == ".." || len(s) > 255 || strings.HasPrefix(strings.ToLower(s), ".git") || strings.EqualFold(s, ".mailmap") || s == "coca_reporter" {
		return false
	}
	for i := 0; i < len(s); i++ {
		if b := s[i]; b < 0x20 || b >= 0x7f || b == '"' || b == '\\' || b == '/' {
			return false
		}
	}
	return true
}

// okQuotedComponent: a component that may hold any byte a file name on Linux may hold, as long as the case can
// be stored as JSON (valid UTF-8) and git accepts the name (core.protectNTFS, on by default everywhere, refuses
// what NTFS would read as .git).
func okQuotedComponent(s string) bool {
	l := strings.ToLower(s)
	if s == "" || s == "." || s == ".." || len(s) > 255 || strings.HasPrefix(l, ".git") || strings.HasPrefix(l, "git~") || strings.EqualFold(s, ".mailmap") || s == "coca_reporter" {
		return false
	}
	return utf8.ValidString(s) && !strings.ContainsAny(s, "/\x00")
}

// quotedVariantOf spells component s so that git has to quote it.
func quotedVariantOf(t *rapid.T, s string) string {
	switch rapid.IntRange(0, 11).Draw(t, "quotedVariantKind") {
	case 0:
		return s + "\u00e4"
	case 1:
		return "\u00e9" + s
	case 2:
		return `"` + s + `"` // the text of the quoted spelling of a plain name, as a name
	case 3:
		return s + `"`
	case 4:
		return s + "\t"
	case 5:
		return s + "\n"
	case 6:
		return s + `\`
	case 7:
		if i := strings.Index(s, "."); i >= 0 {
			return s[:i] + `\` + s[i:]
		}
		return `\` + s
	case 8:
		// the text git prints for s, without the outer quotes, as a name: `sp\303\244t.txt` next to `spät.txt`
		if q := ggen.QuoteC(s); q != s {
			return q[1 : len(q)-1]
		}
		return s + "\x7f"
	case 9:
		return s + " \u00fc "
	case 10:
		if i := strings.IndexAny(s, "aeou"); i >= 0 {
			return s[:i+1] + "\u0308" + s[i+1:] // a combining diaeresis behind the first vowel
		}
		return s + "\u0308"
	}
	return s + "\u00a0"
}

// quotePaths re-spells one or two path components of the history so that git prints them in C notation.
func quotePaths(t *rapid.T, h *ggen.History) {
	n := rapid.IntRange(1, 2).Draw(t, "quotedComponents")
	for i := 0; i < n; i++ {
		comps := historyComponents(h)
		if len(comps) == 0 {
			return
		}
		have := map[string]bool{}
		for _, c := range comps {
			have[c] = true
		}
		from := comps[rapid.IntRange(0, len(comps)-1).Draw(t, "quotedComponent")]
		to := ""
		switch kind := rapid.IntRange(0, 9).Draw(t, "quotedKind"); {
		case kind <= 5:
			to = rapid.SampledFrom(compQuoted).Draw(t, "component")
		case kind <= 8:
			to = quotedVariantOf(t, comps[rapid.IntRange(0, len(comps)-1).Draw(t, "variantOf")])
		default:
			to = longQuotedComponent
		}
		if okQuotedComponent(to) && !have[to] && ggen.QuoteC(to) != to {
			respellComponent(h, from, to)
		}
	}
}

func historyComponents(h *ggen.History) []string {
	set := map[string]bool{}
	for _, c := range h.Commits {
		for _, op := range c.Ops {
			for _, p := range []string{op.Path, op.To} {
				if p == "" {
					continue
				}
				for _, comp := range strings.Split(p, "/") {
					set[comp] = true
				}
			}
		}
	}
	var out []string
	for c := range set {
		out = append(out, c)
	}
	sort.Strings(out)
	return out
}

func mapPath(p string, from, to string) string {
	if p == "" {
		return p
	}
	parts := strings.Split(p, "/")
	for i := range parts {
		if parts[i] == from {
			parts[i] = to
		}
	}
	return strings.Join(parts, "/")
}

// respellComponent writes component from as to (one or several fresh components) wherever it occurs in
// the operation list. The map on components is one-to-one and the new components occur nowhere else, so the
// trees keep their shape: whatever was a valid operation still is one.
func respellComponent(h *ggen.History, from, to string) {
	for i := range h.Commits {
		for j := range h.Commits[i].Ops {
			op := &h.Commits[i].Ops[j]
			op.Path = mapPath(op.Path, from, to)
			op.To = mapPath(op.To, from, to)
		}
	}
}

func variantOf(t *rapid.T, s string) string {
	switch rapid.IntRange(0, 9).Draw(t, "variantKind") {
	case 0:
		return strings.ToUpper(s)
	case 1:
		return strings.ToLower(s)
	case 2:
		if len(s) > 1 {
			return s[:len(s)-1]
		}
	case 3:
		if len(s) > 1 {
			return s[1:]
		}
	case 4:
		return s + "~"
	case 5:
		return s + " (100%)"
	case 6:
		return "{" + s + " => " + s + "}"
	case 7:
		return s + " => " + s
	case 8:
		return "x" + s
	}
	return s + s
}

// decoratePaths re-spells one to three path components of the history.
func decoratePaths(t *rapid.T, h *ggen.History) {
	n := rapid.IntRange(1, 3).Draw(t, "respelledComponents")
	for i := 0; i < n; i++ {
		comps := historyComponents(h)
		if len(comps) == 0 {
			return
		}
		have := map[string]bool{}
		for _, c := range comps {
			have[c] = true
		}
		from := comps[rapid.IntRange(0, len(comps)-1).Draw(t, "respelledComponent")]
		to := ""
		switch rapid.IntRange(0, 9).Draw(t, "componentKind") {
		case 0, 1, 2, 3:
			to = rapid.SampledFrom(compSyntax).Draw(t, "component")
		case 4, 5:
			to = rapid.SampledFrom(compPunct).Draw(t, "component")
		case 6:
			to = rapid.SampledFrom(compVariants).Draw(t, "component")
		case 7, 8:
			to = variantOf(t, comps[rapid.IntRange(0, len(comps)-1).Draw(t, "variantOf")])
		case 9:
			if rapid.Bool().Draw(t, "deep") {
				to = deepComponent
			} else {
				to = longComponent
			}
		}
		ok := true
		for _, part := range strings.Split(to, "/") {
			if !okComponent(part) || have[part] {
				ok = false
			}
		}
		if ok {
			respellComponent(h, from, to)
		}
	}
}

func historyAuthors(h *ggen.History) []string {
	set := map[string]bool{}
	for _, c := range h.Commits {
		set[c.Author] = true
	}
	var out []string
	for a := range set {
		out = append(out, a)
	}
	sort.Strings(out)
	return out
}

var reDateShaped = regexp.MustCompile(`\d{4}-\d{2}-\d{2}`)

// decorateAuthors gives one or two authors of the history another name (all their commits alike).
func decorateAuthors(t *rapid.T, h *ggen.History) {
	n := rapid.IntRange(1, 2).Draw(t, "renamedAuthors")
	for i := 0; i < n; i++ {
		authors := historyAuthors(h)
		have := map[string]bool{}
		for _, a := range authors {
			have[a] = true
		}
		from := authors[rapid.IntRange(0, len(authors)-1).Draw(t, "renamedAuthor")]
		to := ""
		if rapid.IntRange(0, 4).Draw(t, "authorKind") < 4 {
			to = rapid.SampledFrom(authorTargets).Draw(t, "authorName")
		} else {
			other := authors[rapid.IntRange(0, len(authors)-1).Draw(t, "variantOf")]
			switch rapid.IntRange(0, 4).Draw(t, "variantKind") {
			case 0:
				to = strings.ToLower(other)
			case 1:
				to = strings.ToUpper(other)
			case 2:
				to = other + " Jr"
			case 3:
				to = strings.Replace(other, " ", "  ", 1)
			case 4:
				to = other + " " + other
			}
		}
		// git removes < and > from a name and the characters . , : ; " ' \ and white space from its ends
		if to == "" || have[to] || reDateShaped.MatchString(to) || strings.ContainsAny(to, "<>\n") || strings.Trim(to, " \t.,:;\"'\\") != to {
			continue
		}
		for j := range h.Commits {
			if h.Commits[j].Author == from {
				h.Commits[j].Author = to
			}
		}
	}
}

func filler(n int) string {
	if n <= 0 {
		return ""
	}
	s := strings.Repeat("lorem ipsum dolor sit amet ", n/27+1)[:n]
	if strings.HasSuffix(s, " ") {
		s = s[:n-1] + "x"
	}
	return s
}

// decorateSubjects appends a token to the subject of one or two commits.
func decorateSubjects(t *rapid.T, h *ggen.History) {
	n := rapid.IntRange(1, 2).Draw(t, "decoratedSubjects")
	for i := 0; i < n; i++ {
		c := &h.Commits[rapid.IntRange(0, len(h.Commits)-1).Draw(t, "decoratedCommit")]
		tok := rapid.SampledFrom(subjectTokens).Draw(t, "subjectToken")
		if strings.HasSuffix(tok, "\t") {
			tok += "end"
		}
		if c.Subject == "" {
			c.Subject = tok
		} else {
			c.Subject += " " + tok
		}
	}
}

// longSubject makes the subject of one commit longer than 4096 bytes, now and then longer than 65536.
func longSubject(t *rapid.T, h *ggen.History) {
	c := &h.Commits[rapid.IntRange(0, len(h.Commits)-1).Draw(t, "longSubjectCommit")]
	size := 4097
	if rapid.IntRange(0, 3).Draw(t, "longSubjectClass") == 3 {
		size = 65537
	}
	size += rapid.IntRange(0, 5000).Draw(t, "longSubjectExtra")
	if c.Subject == "" {
		c.Subject = filler(size)
	} else if len(c.Subject) < size {
		c.Subject += " " + filler(size-len(c.Subject)-1)
	}
}

func decorateBodies(t *rapid.T, h *ggen.History) {
	for i := range h.Commits {
		c := &h.Commits[i]
		if c.Subject == "" || rapid.IntRange(0, 2).Draw(t, "body") < 2 {
			continue
		}
		c.Body = rapid.SampledFrom(bodyPool).Draw(t, "bodyText")
		if rapid.IntRange(0, 3).Draw(t, "secondParagraph") == 3 {
			c.Body += "\n\n" + rapid.SampledFrom(bodyPool).Draw(t, "bodyText")
		}
	}
}

// decorateRenames lets renames flip the executable bit of the moved file.
func decorateRenames(t *rapid.T, h *ggen.History) {
	for i := range h.Commits {
		for j := range h.Commits[i].Ops {
			op := &h.Commits[i].Ops[j]
			if op.Kind == "rename" && rapid.Bool().Draw(t, "renameChmod") {
				op.Chmod = true
			}
		}
	}
}

// bulkImport lets one ordinary commit add 26-70 further files in a fresh directory.
func bulkImport(t *rapid.T, h *ggen.History) {
	var cand []int
	for i, c := range h.Commits {
		if !c.Merge && !c.Squash {
			cand = append(cand, i)
		}
	}
	if len(cand) == 0 {
		return
	}
	c := &h.Commits[cand[rapid.IntRange(0, len(cand)-1).Draw(t, "bulkCommit")]]
	have := map[string]bool{}
	for _, comp := range historyComponents(h) {
		have[comp] = true
	}
	dir := "many"
	for n := 2; have[dir]; n++ {
		dir = fmt.Sprintf("many%d", n)
	}
	k := rapid.IntRange(26, 70).Draw(t, "bulkFiles")
	if rapid.IntRange(0, 3).Draw(t, "bulkPastTheLimits") == 3 {
		k = rapid.SampledFrom([]int{31, 32, 33, 63, 64, 65, 70}).Draw(t, "bulkLimit")
	}
	for i := 1; i <= k; i++ {
		c.Ops = append(c.Ops, ggen.Op{Kind: "add", Path: fmt.Sprintf("%s/m%d.txt", dir, i), Lines: 1})
	}
}

// hugeFile lets the last ordinary commit add a text file of 10000-13000 lines, now and then of 100000 (numstat figures of five and six
// digits). No later commit touches it, so no line diff of that size is ever computed.
func hugeFile(t *rapid.T, h *ggen.History) {
	at := -1
	for i, c := range h.Commits {
		if !c.Merge && !c.Squash {
			at = i
		}
	}
	if at < 0 {
		return
	}
	have := map[string]bool{}
	for _, comp := range historyComponents(h) {
		have[comp] = true
	}
	name := "huge.csv"
	for n := 2; have[name]; n++ {
		name = fmt.Sprintf("huge%d.csv", n)
	}
	lines := 10000 + rapid.IntRange(0, 2999).Draw(t, "hugeLines")
	if rapid.IntRange(0, 4).Draw(t, "sixDigits") == 4 {
		lines = 100000
	}
	h.Commits[at].Ops = append(h.Commits[at].Ops, ggen.Op{Kind: "add", Path: name, Lines: lines})
}

// sameTextChange gives the commit of a rename a second change that git prints with the very same text: the
// rename a/f.txt -> b/f.txt is printed `{a => b}/f.txt`, and that text is a path as well (the file f.txt in a
// directory called `{a => b}`; `f.txt => g.txt` is a file name). The file with that path is created in the
// commit of the rename, or created by an earlier commit of the same lane and modified or deleted there, so the
// commit has two numstat lines with one text, and the summary lines ` rename T (n%)` and ` create / delete mode
// 100644 T` side by side. The history is kept only if it still simulates (a path may be in the way).
func sameTextChange(t *rapid.T, h *ggen.History) {
	type cand struct {
		commit int
		text   string
	}
	var cands []cand
	for i, c := range h.Commits {
		for _, op := range c.Ops {
			if op.Kind != "rename" || ggen.QuoteC(op.Path) != op.Path || ggen.QuoteC(op.To) != op.To {
				continue // a quoted rename is printed `"a" => b`, and a file of that name with the quotes escaped
			}
			text, ok := ggen.PrintRename(op.Path, op.To), true
			for _, comp := range strings.Split(text, "/") {
				ok = ok && okComponent(comp)
			}
			if ok {
				cands = append(cands, cand{i, text})
			}
		}
	}
	if len(cands) == 0 {
		return
	}
	pick := cands[rapid.IntRange(0, len(cands)-1).Draw(t, "sameTextRename")]
	flavour := rapid.IntRange(0, 2).Draw(t, "sameTextFlavour") // 0 created there, 1 modified there, 2 deleted there
	lines := rapid.IntRange(1, 4).Draw(t, "sameTextLines")
	try := func(flavour int) bool {
		out := ggen.History{Commits: append([]ggen.Commit(nil), h.Commits...)}
		with := func(i int, op ggen.Op) {
			out.Commits[i].Ops = append(append([]ggen.Op(nil), out.Commits[i].Ops...), op)
		}
		if flavour > 0 {
			k := -1
			for j := pick.commit - 1; j >= 0; j-- {
				if c := h.Commits[j]; c.Lane == h.Commits[pick.commit].Lane && !c.Merge && !c.Squash {
					k = j
					break
				}
			}
			if k < 0 {
				return false
			}
			with(k, ggen.Op{Kind: "add", Path: pick.text, Lines: lines})
		}
		switch flavour {
		case 0:
			with(pick.commit, ggen.Op{Kind: "add", Path: pick.text, Lines: lines})
		case 1:
			with(pick.commit, ggen.Op{Kind: "modify", Path: pick.text, Ins: 1})
		case 2:
			with(pick.commit, ggen.Op{Kind: "delete", Path: pick.text})
		}
		if _, err := ggen.Simulate(out); err != nil {
			return false
		}
		*h = out
		return true
	}
	if !try(flavour) && flavour > 0 {
		try(0)
	}
}

// padHistory appends 20-60 small commits to the main branch (there are few cases with real git, so long
// histories are made by construction there: a log of more than 16, 32, 64 commits).
func padHistory(t *rapid.T, h *ggen.History) {
	last := h.Commits[len(h.Commits)-1]
	authors := historyAuthors(h)
	have := map[string]bool{}
	for _, comp := range historyComponents(h) {
		have[comp] = true
	}
	dir := "pad"
	for n := 2; have[dir]; n++ {
		dir = fmt.Sprintf("pad%d", n)
	}
	k := rapid.IntRange(20, 60).Draw(t, "padCommits")
	prev := ""
	for i := 1; i <= k; i++ {
		c := ggen.Commit{Author: authors[rapid.IntRange(0, len(authors)-1).Draw(t, "padAuthor")], Date: last.Date, Clock: last.Clock, Zone: last.Zone,
			Subject: fmt.Sprintf("pad %d", i)}
		if prev != "" && rapid.Bool().Draw(t, "padModify") {
			c.Ops = []ggen.Op{{Kind: "modify", Path: prev, Ins: 1}}
		} else {
			prev = fmt.Sprintf("%s/p%d.txt", dir, i)
			c.Ops = []ggen.Op{{Kind: "add", Path: prev, Lines: 1}}
		}
		h.Commits = append(h.Commits, c)
	}
}

// decorationsAllowed: the feature switches tied to known findings keep the generator away from texts that
// repeat the author or the date or begin with a number; the re-spelling above does not look at them, so it
// stays off altogether while one of them is set.
func decorationsAllowed() bool {
	return !(pbt.Excluded("subject_bracketed_hex") || pbt.Excluded("subject_repeats_author") || pbt.Excluded("subject_repeats_date") ||
		pbt.Excluded("path_numeric_space") || pbt.Excluded("path_leading_blank"))
}

// genHistory draws a history with the shapes of the checklist audit on top of those of ggen.Gen.
// realGit: the history is going to be built with real git (message bodies matter only there; long histories
// are rarer because every commit costs several git calls).
func genHistory(t *rapid.T, o ggen.Options, realGit bool) ggen.History {
	allowed := decorationsAllowed()
	if allowed && o.MaxCommits == 0 && !realGit && rapid.IntRange(0, 29).Draw(t, "longHistory") == 29 {
		o.MaxCommits = 100 // an emulated log of up to 100 commits
	}
	h := ggen.Gen(t, o)
	if !allowed {
		return h
	}
	if rapid.IntRange(0, 9).Draw(t, "respellPaths") >= 7 {
		decoratePaths(t, &h)
	}
	if rapid.IntRange(0, 9).Draw(t, "renameAuthors") >= 8 {
		decorateAuthors(t, &h)
	}
	if rapid.IntRange(0, 9).Draw(t, "decorateSubjects") >= 8 {
		decorateSubjects(t, &h)
	}
	if rapid.IntRange(0, 39).Draw(t, "longSubject") == 39 {
		longSubject(t, &h)
	}
	if rapid.IntRange(0, 4).Draw(t, "renamesChmod") == 4 {
		decorateRenames(t, &h)
	}
	if rapid.IntRange(0, 29).Draw(t, "bulkImport") == 29 {
		bulkImport(t, &h)
	}
	if rapid.IntRange(0, 59).Draw(t, "hugeFile") == 59 {
		hugeFile(t, &h)
	}
	if o.QuotedPaths && rapid.IntRange(0, 9).Draw(t, "quotePaths") == 9 {
		quotePaths(t, &h)
	}
	// one emulated case in 25, one case with real git in 8 (there are few of those)
	sameTextOdds := 24
	if realGit {
		sameTextOdds = 7
	}
	if !pbt.Excluded("same_text_changes") && rapid.IntRange(0, sameTextOdds).Draw(t, "sameTextChange") == sameTextOdds {
		sameTextChange(t, &h)
	}
	if realGit && rapid.Bool().Draw(t, "bodies") {
		decorateBodies(t, &h)
	}
	if realGit && rapid.IntRange(0, 14).Draw(t, "padHistory") == 14 {
		padHistory(t, &h)
	}
	return h // the callers simulate it: an operation list that is not valid ends the run as a harness error
}

// ---- `coca git` variants -----------------------------------------------------------------

// MailMap is one line of a .mailmap file in the work tree: commits whose author name is From (all commits
// when From is empty: the line then names the address only, which all generated authors share) are printed
// by %aN with the name To.
type MailMap struct {
	From string `json:"from,omitempty"`
	To   string `json:"to"`
}

var (
	mailmapTargets = []string{"Mapped Name", "x", "Zoë 2", "[bot] 9", "Ann Lee", "Bob 2", "M. A. Pped", "map  ped"}
	// spellings of options that leave commits.json alone
	cliFlags = [][]string{{"-b"}, {"--basic"}, {"-t"}, {"--team"}, {"-a"}, {"--age"}, {"-o"}, {"--top"}, {"-m"}, {"--summary"},
		{"-f"}, {"--full"}, {"-s", "1"}, {"-s=2"}, {"--size", "3"}, {"--size=0"}, {"-bt"}, {"-tf", "-s", "1"}, {"-aof", "--size=1"}}
)

func asciiLower(s string) string {
	b := []byte(s)
	for i, c := range b {
		if c >= 'A' && c <= 'Z' {
			b[i] = c + 32
		}
	}
	return string(b)
}

func genMailmap(t *rapid.T, h ggen.History) []MailMap {
	if rapid.IntRange(0, 3).Draw(t, "mailmapForm") == 3 {
		return []MailMap{{To: rapid.SampledFrom(mailmapTargets).Draw(t, "mailmapTo")}}
	}
	authors := historyAuthors(&h)
	var out []MailMap
	seen := map[string]bool{}
	n := rapid.IntRange(1, 2).Draw(t, "mailmapLines")
	for i := 0; i < n; i++ {
		from := authors[rapid.IntRange(0, len(authors)-1).Draw(t, "mailmapFrom")]
		to := rapid.SampledFrom(mailmapTargets).Draw(t, "mailmapTo")
		if rapid.IntRange(0, 3).Draw(t, "mailmapToOtherAuthor") == 3 {
			to = authors[rapid.IntRange(0, len(authors)-1).Draw(t, "mailmapToAuthor")]
		}
		key := asciiLower(strings.TrimSpace(from))
		// git reads the names up to the next '<' and trims them; a line that begins with '#' is a comment
		if seen[key] || strings.HasPrefix(from, "#") || strings.HasPrefix(to, "#") || strings.TrimSpace(from) != from || strings.TrimSpace(to) != to || to == "" {
			continue
		}
		seen[key] = true
		out = append(out, MailMap{From: from, To: to})
	}
	return out
}

func mailmapText(m []MailMap) string {
	var sb strings.Builder
	sb.WriteString("# written by the C14 check\n")
	for _, e := range m {
		if e.From == "" {
			fmt.Fprintf(&sb, "%s <author@example.org>\n", e.To)
		} else {
			fmt.Fprintf(&sb, "%s <mapped@example.org> %s <author@example.org>\n", e.To, e.From)
		}
	}
	return sb.String()
}

// applyMailmap gives the history git prints with %aN under the mailmap (names compare without regard to
// ASCII case; a line with a name wins over the line with the address only).
func applyMailmap(h ggen.History, m []MailMap) ggen.History {
	out := ggen.History{Commits: append([]ggen.Commit(nil), h.Commits...)}
	for i := range out.Commits {
		c := &out.Commits[i]
		mapped := false
		for _, e := range m {
			if e.From != "" && asciiLower(e.From) == asciiLower(c.Author) {
				c.Author, mapped = e.To, true
				break
			}
		}
		if mapped {
			continue
		}
		for _, e := range m {
			if e.From == "" {
				c.Author = e.To
				break
			}
		}
	}
	return out
}

// ---- class labels of the added shapes (pure functions of the case) -------------------------

var (
	reSimilarity  = regexp.MustCompile(`\(\d+%\)`)
	reHexBracket  = regexp.MustCompile(`\[[0-9a-f]{5,40}\]`)
	reDigitsDash  = regexp.MustCompile(`^[\d-]+$`)
	reNearDate    = regexp.MustCompile(`\d{4}-\d{1,2}(-\d{1,2})?`)
	reNumstatLike = regexp.MustCompile(`[\d-]+\t[\d-]+\t`)
	reEscapeText  = regexp.MustCompile(`\\([0-7]{3}|[abtnvfr"\\])`)
)

func shapeClasses(h ggen.History, sim *ggen.Sim, exp []ggen.Expected) []string {
	set := map[string]bool{}
	lower := map[string]string{}
	all := historyComponents(&h)
	for _, comp := range all {
		l := strings.ToLower(comp)
		if prev, ok := lower[l]; ok && prev != comp {
			set["path_components_differ_only_by_case"] = true
		}
		lower[l] = comp
		switch {
		case strings.Contains(comp, " => ") || strings.ContainsAny(comp, "{}"):
			set["path_like_rename_notation"] = true
		case reSimilarity.MatchString(comp) || comp == "100%":
			set["path_like_similarity_suffix"] = true
		case strings.Contains(comp, "mode 100") || comp == "create" || comp == "delete" || comp == "mode" || comp == "rename" || comp == "change" || comp == "Merge":
			set["path_like_summary_line_words"] = true
		case reHexBracket.MatchString(comp) || reDateShaped.MatchString(comp):
			set["path_like_commit_line"] = true
		case reDigitsDash.MatchString(comp) || strings.HasPrefix(comp, "- - "):
			set["path_digits_and_dashes_only"] = true
		case strings.ContainsAny(comp, "$#@+,;'&!~%=:()[]<>^*?|`"):
			set["path_other_punctuation"] = true
		}
		if strings.Contains(comp, " => ") && reSimilarity.MatchString(comp) {
			set["path_like_similarity_suffix"] = true
		}
		if len(comp) >= 200 {
			set["path_component_200+_bytes"] = true
		}
		if q := ggen.QuoteC(comp); q != comp {
			if strings.Contains(comp, " => ") || strings.Contains(comp, "mode 100") || reSimilarity.MatchString(comp) || reHexBracket.MatchString(comp) || reNumstatLike.MatchString(comp) {
				set["path_c_quoted_like_log_syntax"] = true
			}
			if strings.Contains(comp, "\n") && len(comp) > strings.Index(comp, "\n")+1 {
				set["path_c_quoted_text_behind_a_line_break"] = true
			}
			if reEscapeText.MatchString(comp) {
				set["path_c_quoted_literal_backslash_escape_text"] = true
			}
			if strings.HasPrefix(comp, `"`) && strings.HasSuffix(comp, `"`) {
				set["path_c_quoted_literal_quote_at_both_ends"] = true
			}
			if strings.HasPrefix(comp, " ") || strings.HasSuffix(comp, " ") {
				set["path_c_quoted_component_blank_at_an_end"] = true
			}
			if len(q) >= 600 {
				set["path_c_quoted_printed_600+_bytes"] = true
			}
			if strings.Trim(comp, "\"\\\t\n\r") == "" {
				set["path_c_quoted_component_of_quotes_backslashes_or_controls_only"] = true
			}
			for _, other := range all {
				if other != comp && (ggen.QuoteC(other) == `"`+comp+`"` || `"`+other+`"` == comp || q == `"`+other+`"`) {
					set["path_c_quoted_component_spelled_like_the_printed_form_of_another"] = true
				}
			}
		}
	}
	for _, c := range h.Commits {
		for _, op := range c.Ops {
			if strings.Count(op.Path, "/") >= 10 || strings.Count(op.To, "/") >= 10 {
				set["path_10+_levels_deep"] = true
			}
			for _, p := range []string{op.Path, op.To} {
				if p == "" {
					continue
				}
				if name := p[strings.LastIndex(p, "/")+1:]; len(name) == 1 && name != " " {
					set["file_name_of_one_character"] = true
				}
			}
		}
	}
	lowerA := map[string]string{}
	for _, a := range historyAuthors(&h) {
		l := asciiLower(a)
		if prev, ok := lowerA[l]; ok && prev != a {
			set["authors_differ_only_by_case"] = true
		}
		lowerA[l] = a
		if len([]rune(a)) == 1 {
			set["author_of_one_character"] = true
		}
		if len(a) >= 200 {
			set["author_200+_bytes"] = true
		}
		if strings.Contains(a, "  ") || strings.Contains(a, "\t") || strings.Contains(a, "\u00a0") {
			set["author_blank_run_tab_or_nbsp"] = true
		}
		if reHexBracket.MatchString(a) {
			set["author_bracketed_hex"] = true
		}
		if reNearDate.MatchString(a) || a == "2015" || a == "Bob 2020" {
			set["author_near_date_token"] = true
		}
		if strings.Contains(a, "mode") || strings.ContainsAny(a, "{}") || a == "Merge" || strings.Contains(a, "%") || reDigitsDash.MatchString(strings.ReplaceAll(a, " ", "")) && strings.Contains(a, " ") {
			set["author_like_log_syntax"] = true
		}
	}
	for _, c := range sim.Log() {
		s := c.Commit.Subject
		if len(s) > 4096 {
			set["subject_longer_than_4096_bytes"] = true
		}
		if len(s) > 65536 {
			set["subject_longer_than_65536_bytes"] = true
		}
		if strings.Contains(s, "\t") {
			set["subject_tab"] = true
		}
		if reNumstatLike.MatchString(s) {
			set["subject_like_numstat_line"] = true
		}
		if strings.Contains(s, " mode 100") || strings.Contains(s, "mode change ") || strings.Contains(s, "%)") {
			set["subject_like_summary_line"] = true
		}
		if strings.ContainsAny(s, "\r\f\v") {
			set["subject_cr_ff_or_vt"] = true
		}
		for _, sp := range []string{"\u00a0", "\u3000", "\u0085", "\u2028", "\f", "\v"} {
			if strings.HasSuffix(s, sp) {
				set["subject_ends_with_space_other_than_blank_tab"] = true
				if len(c.Entries) > 0 && len(c.Parents) < 2 {
					set["subject_ends_with_space_other_than_blank_tab_on_commit_with_changes"] = true
				}
			}
			if strings.HasPrefix(s, sp) {
				set["subject_begins_with_space_other_than_blank_tab"] = true
			}
		}
		if c.Commit.Body != "" && s != "" {
			set["message_body"] = true
			if strings.Contains(c.Commit.Body, "\t") || strings.Contains(c.Commit.Body, "mode 100") || strings.Contains(c.Commit.Body, "[abc1234]") {
				set["message_body_like_log_lines"] = true
			}
		}
		if len(c.Parents) < 2 {
			seenText := map[string]byte{}
			for _, e := range c.Entries {
				if k, ok := seenText[e.Printed()]; ok {
					set["changes_printed_alike_in_commit"] = true
					for _, kind := range []byte{k, e.Kind} {
						switch kind {
						case 'A':
							set["changes_printed_alike_rename_and_create"] = true
						case 'D':
							set["changes_printed_alike_rename_and_delete"] = true
						case 'M':
							set["changes_printed_alike_rename_and_modify"] = true
						}
					}
				}
				seenText[e.Printed()] = e.Kind
			}
		}
		for _, e := range c.Entries {
			if e.Kind == 'R' && e.ModeChange != "" {
				set["rename_with_mode_change"] = true
			}
			if e.Added >= 10000 {
				set["numstat_5_digits"] = true
			}
			if e.Added >= 100000 {
				set["numstat_6_digits"] = true
			}
		}
		for _, lim := range []int{32, 64} {
			if len(c.Entries) >= lim && len(c.Parents) < 2 {
				set[fmt.Sprintf("commit_with_changes>=%d", lim)] = true
			}
		}
	}
	for _, lim := range []int{16, 32, 64} {
		if len(sim.Log()) >= lim {
			set[fmt.Sprintf("log_commits>=%d", lim)] = true
		}
		if len(exp) >= lim {
			set[fmt.Sprintf("commits_with_changes>=%d", lim)] = true
		}
	}
	var out []string
	for k := range set {
		out = append(out, k)
	}
	sort.Strings(out)
	return out
}
