// C03 — call graph shows only real calls, all direct callees of the root, and terminates.
package c03

import (
	"encoding/json"
	"fmt"
	"os"
	"path/filepath"
	"sort"
	"strconv"
	"strings"
	"testing"
	"unicode/utf8"

	"github.com/modernizing/coca/pkg/application/call"
	"github.com/modernizing/coca/pkg/application/rcall"
	"github.com/modernizing/coca/pkg/domain/api_domain"
	"github.com/modernizing/coca/pkg/domain/core_domain"
	"pgregory.net/rapid"

	"verif/internal/cli"
	"verif/internal/dot"
	"verif/internal/mgen"
	"verif/internal/pbt"
)

type CallCase struct {
	Model  mgen.Model `json:"model"`
	Root   string     `json:"root"`
	Lookup bool       `json:"lookup"`
}

type Api struct {
	Verb, Uri, Pkg, Class, Method string
}

type ApiCase struct {
	Model mgen.Model        `json:"model"`
	DI    map[string]string `json:"di"`
	Apis  []Api             `json:"apis"`
	NilDI bool              `json:"nilDI,omitempty"` // pass a nil map instead of an empty one
}

// SeqCase: several generations in one process, on shared data, without any reset between them.
type SeqCase struct {
	Models []mgen.Model      `json:"models"` // one or two; the second is often a changed copy of the first
	DI     map[string]string `json:"di"`
	Steps  []Step            `json:"steps"`
}

type Step struct {
	Kind   string `json:"kind"` // "call" | "api"
	Model  int    `json:"model"`
	Root   string `json:"root,omitempty"`
	Lookup bool   `json:"lookup,omitempty"`
	Apis   []Api  `json:"apis,omitempty"`
	UseDI  bool   `json:"useDI,omitempty"`
}

// CliCase: the same through the real binary (`coca call`, `coca api -c`).
type CliCase struct {
	Model  mgen.Model `json:"model"`
	Mode   string     `json:"mode"` // "call" | "api"
	Root   string     `json:"root,omitempty"`
	Lookup bool       `json:"lookup,omitempty"`
	Apis   []Api      `json:"apis,omitempty"`
	Sort   bool       `json:"sort,omitempty"`
	Layout int        `json:"layout,omitempty"` // how deps.json / apis.json are laid out (layoutJSON)
	Spell  int        `json:"spell,omitempty"`  // which spelling of the command line (cliArgs)
}

// ---- generators ------------------------------------------------------------------------

// calleeNames lists every callee name with a receiver that occurs in the model, in order, once.
func calleeNames(m mgen.Model) []string {
	var out []string
	seen := map[string]bool{}
	for _, c := range m.Classes {
		for _, mm := range c.Methods {
			for _, cc := range mm.Calls {
				if cc.Node != "" && !seen[cc.Full()] {
					seen[cc.Full()] = true
					out = append(out, cc.Full())
				}
			}
		}
	}
	return out
}

// nearMiss returns a name one small step away from a declared name.
func nearMiss(full string, kind int) string {
	switch kind {
	case 0:
		_, n := utf8.DecodeLastRuneInString(full)
		return full[:len(full)-n]
	case 1:
		return full + "0"
	case 2:
		return strings.ToUpper(full)
	case 3:
		return strings.ToLower(full)
	case 4:
		return full + " "
	case 5:
		return " " + full
	case 6:
		return full + "."
	}
	return ""
}

func genRoot(t *rapid.T, m mgen.Model) string {
	methods := m.Methods()
	if len(methods) > 0 && rapid.IntRange(0, 11).Draw(t, "nearMiss") == 11 {
		// absent, unless another method is declared under exactly that name
		return nearMiss(rapid.SampledFrom(methods).Draw(t, "nearMissOf"), rapid.IntRange(0, 7).Draw(t, "nearMissKind"))
	}
	k := rapid.IntRange(0, 13).Draw(t, "rootKind")
	if k == 0 || len(methods) == 0 {
		return "zz.Absent.nothing"
	}
	if k < 8 {
		// prefer a root that calls something
		var callers []string
		calls := m.Calls()
		for _, name := range methods {
			if len(calls[name]) > 0 {
				callers = append(callers, name)
			}
		}
		if len(callers) > 0 {
			// index 0 is the top of the tree in the shape-3 models
			if rapid.IntRange(0, 2).Draw(t, "firstCaller") == 2 {
				return callers[0]
			}
			return rapid.SampledFrom(callers).Draw(t, "root")
		}
	}
	if k == 12 {
		// a name that occurs as a callee: undeclared method, external method, constructor form, or declared
		if names := calleeNames(m); len(names) > 0 {
			return rapid.SampledFrom(names).Draw(t, "calleeRoot")
		}
		return ""
	}
	if k == 13 {
		// a declared name without its first segment: absent, unless another class is declared under that name
		full := rapid.SampledFrom(methods).Draw(t, "partialOf")
		return full[strings.Index(full, ".")+1:]
	}
	return rapid.SampledFrom(methods).Draw(t, "root")
}

func genCall(t *rapid.T) CallCase {
	m := wGen(t, wOpts{Quotes: true})
	return CallCase{Model: m, Root: genRoot(t, m), Lookup: rapid.IntRange(0, 4).Draw(t, "lookup") == 4}
}

var extClasses = []string{"org.ext.Ext", "x.Ext", "java.util.Ext"}

func genDI(t *rapid.T, m mgen.Model) map[string]string {
	di := map[string]string{}
	if len(m.Classes) < 2 {
		return di
	}
	n := rapid.IntRange(0, 4).Draw(t, "nDI")
	prevFrom, prevTo := "", ""
	for i := 0; i < n; i++ {
		from := rapid.SampledFrom(m.Classes).Draw(t, "diFrom").Full()
		to := rapid.SampledFrom(m.Classes).Draw(t, "diTo").Full()
		switch rapid.IntRange(0, 6).Draw(t, "diKind") {
		case 6: // a class whose full name is the tail of another class's full name (b.C0 next to a.b.C0)
			if tails := tailClasses(m); len(tails) > 0 {
				from = rapid.SampledFrom(tails).Draw(t, "diTail")
			}
		case 3: // an interface outside the model, implemented in the project
			from = rapid.SampledFrom(extClasses).Draw(t, "diExt")
		case 4: // chain: the previous implementation is itself injected
			if prevTo != "" {
				from = prevTo
			}
		case 5: // swap
			if prevTo != "" {
				from, to = prevTo, prevFrom
			}
		}
		switch rapid.IntRange(0, 5).Draw(t, "diExtra") {
		case 3: // the implementation is not part of the model
			to = "org.ext.Impl"
		case 4: // a class whose full name is the head of another class's full name (a.C0 next to a.C00)
			if heads := headClasses(m); len(heads) > 0 {
				from = rapid.SampledFrom(heads).Draw(t, "diHead")
			}
		case 5: // what the project's own DI scan registers: a class as its own implementation
			to = from
		}
		di[from] = to
		prevFrom, prevTo = from, to
	}
	return di
}

// tailClasses lists the classes whose full name is a proper suffix of another class's full name.
func tailClasses(m mgen.Model) []string {
	var out []string
	for _, c := range m.Classes {
		for _, d := range m.Classes {
			if c.Full() != d.Full() && strings.HasSuffix(d.Full(), c.Full()) {
				out = append(out, c.Full())
				break
			}
		}
	}
	return out
}

// headClasses lists the classes whose full name is a proper prefix of another class's full name.
func headClasses(m mgen.Model) []string {
	var out []string
	for _, c := range m.Classes {
		for _, d := range m.Classes {
			if c.Full() != d.Full() && strings.HasPrefix(d.Full(), c.Full()) {
				out = append(out, c.Full())
				break
			}
		}
	}
	return out
}

// URI tails with characters of the output format; the second list only where no table is parsed
var uriTails = []string{"/{id:[0-9]+}", "/x;y=1", "/a.b", "/A_1", "/->", "/\u00e9"}
var uriTailsBlank = []string{"/a -> b", "/ b", "/a b;", "/} x"}

// genApis draws an API list. blanks: URIs may contain blanks (not where the -c table is read back).
func genApis(t *rapid.T, m mgen.Model, max int, blanks bool) []Api {
	var apis []Api
	n := rapid.IntRange(0, max).Draw(t, "nApis")
	if rapid.IntRange(0, 19).Draw(t, "manyApis") == 19 {
		n = rapid.IntRange(9, 20).Draw(t, "nManyApis")
	}
	methods := m.Methods()
	for i := 0; i < n; i++ {
		a := Api{Verb: rapid.SampledFrom([]string{"GET", "POST", "PUT", "DELETE", "PATCH", "get"}).Draw(t, "verb"),
			Uri: "/" + rapid.StringMatching(`[a-z]{1,3}(/[a-z{}]{1,4}){0,2}`).Draw(t, "uri")}
		if rapid.IntRange(0, 5).Draw(t, "uriTail") == 5 {
			tails := uriTails
			if blanks {
				tails = append(append([]string{}, uriTails...), uriTailsBlank...)
			}
			a.Uri += rapid.SampledFrom(tails).Draw(t, "uriTailText")
		}
		if len(methods) == 0 || rapid.IntRange(0, 9).Draw(t, "absent") == 0 {
			a.Pkg, a.Class, a.Method = "zz", "Absent", "nothing"
		} else if i > 0 && rapid.IntRange(0, 5).Draw(t, "sameHandler") == 5 {
			// two routes served by one handler
			a.Pkg, a.Class, a.Method = apis[i-1].Pkg, apis[i-1].Class, apis[i-1].Method
			if rapid.IntRange(0, 2).Draw(t, "sameRoute") == 2 {
				// the same entry twice
				a.Verb, a.Uri = apis[i-1].Verb, apis[i-1].Uri
			}
		} else {
			ci := rapid.IntRange(0, len(m.Classes)-1).Draw(t, "apiClass")
			cl := m.Classes[ci]
			if len(cl.Methods) == 0 {
				a.Pkg, a.Class, a.Method = cl.Pkg, cl.Name, "ghost"
			} else {
				mm := rapid.SampledFrom(cl.Methods).Draw(t, "apiMethod")
				if len(mm.Calls) == 0 {
					mm = rapid.SampledFrom(cl.Methods).Draw(t, "apiMethod2")
				}
				a.Pkg, a.Class, a.Method = cl.Pkg, cl.Name, mm.Name
			}
		}
		apis = append(apis, a)
	}
	return apis
}

func genApi(t *rapid.T) ApiCase {
	m := wGen(t, wOpts{Quotes: true})
	c := ApiCase{Model: m, DI: genDI(t, m)}
	c.Apis = genApis(t, m, 6, true)
	if len(c.DI) == 0 {
		c.NilDI = rapid.IntRange(0, 3).Draw(t, "nilDI") == 3
	}
	return c
}

func genSeq(t *rapid.T) SeqCase {
	a := wGen(t, wOpts{Quotes: true})
	c := SeqCase{Models: []mgen.Model{a}}
	switch rapid.IntRange(0, 3).Draw(t, "second") {
	case 1, 2:
		c.Models = append(c.Models, wMutate(t, a))
	case 3:
		c.Models = append(c.Models, wGen(t, wOpts{Quotes: true}))
	}
	c.DI = genDI(t, a)
	n := rapid.IntRange(2, 4).Draw(t, "nSteps")
	prev := Step{}
	for i := 0; i < n; i++ {
		s := Step{Kind: "call", Model: rapid.IntRange(0, len(c.Models)-1).Draw(t, "stepModel")}
		m := c.Models[s.Model]
		if rapid.IntRange(0, 2).Draw(t, "stepKind") == 2 {
			s.Kind = "api"
			s.Apis = genApis(t, m, 3, true)
			s.UseDI = rapid.Bool().Draw(t, "useDI")
		} else {
			s.Root = genRoot(t, m)
			if i > 0 && prev.Kind == "call" && rapid.IntRange(0, 2).Draw(t, "sameRoot") == 2 {
				s.Root = prev.Root // the same question asked again (of the same or of the other model)
			}
			s.Lookup = rapid.IntRange(0, 3).Draw(t, "lookup") == 3
		}
		c.Steps = append(c.Steps, s)
		prev = s
	}
	return c
}

func genCli(t *rapid.T) CliCase {
	m := wGen(t, wOpts{Quotes: true})
	c := CliCase{Model: m, Mode: "call"}
	if rapid.IntRange(0, 1).Draw(t, "mode") == 1 {
		c.Mode = "api"
		c.Apis = genApis(t, m, 5, false)
		c.Sort = rapid.Bool().Draw(t, "sort")
	} else {
		c.Root = genRoot(t, m)
		c.Lookup = rapid.IntRange(0, 2).Draw(t, "lookup") == 2
	}
	c.Layout = rapid.IntRange(0, 3).Draw(t, "layout")
	c.Spell = rapid.IntRange(0, 6).Draw(t, "spell")
	return c
}

// ---- reference model -------------------------------------------------------------------

type ref struct {
	rel map[string][]string // method -> callees after DI replacement, in order
}

func className(full string) string {
	i := strings.LastIndex(full, ".")
	if i < 0 {
		return ""
	}
	return full[:i]
}

func methodName(full string) string {
	return full[strings.LastIndex(full, ".")+1:]
}

func newRef(m mgen.Model, di map[string]string) ref {
	r := ref{rel: map[string][]string{}}
	for k, list := range m.Calls() {
		var out []string
		for _, c := range list {
			if impl, ok := di[className(c)]; ok {
				c = impl + "." + methodName(c)
			}
			out = append(out, c)
		}
		r.rel[k] = out
	}
	return r
}

func (r ref) reach(root string) map[string]bool {
	seen := map[string]bool{root: true}
	stack := []string{root}
	for len(stack) > 0 {
		n := stack[len(stack)-1]
		stack = stack[:len(stack)-1]
		for _, c := range r.rel[n] {
			if !seen[c] {
				seen[c] = true
				stack = append(stack, c)
			}
		}
	}
	return seen
}

// treeSize is the number of expansions a depth-first unfolding of the call tree needs:
// the root plus every occurrence of a callee that itself has callees. Stops counting above cap.
func (r ref) treeSize(n string, cap int, acc *int) {
	*acc++
	if *acc > cap {
		return
	}
	for _, c := range r.rel[n] {
		if len(r.rel[c]) > 0 {
			r.treeSize(c, cap, acc)
			if *acc > cap {
				return
			}
		}
	}
}

func (r ref) hasCycleFrom(root string) bool {
	state := map[string]int{}
	var dfs func(n string) bool
	dfs = func(n string) bool {
		state[n] = 1
		for _, c := range r.rel[n] {
			if state[c] == 1 {
				return true
			}
			if state[c] == 0 && dfs(c) {
				return true
			}
		}
		state[n] = 2
		return false
	}
	return dfs(root)
}

func contains(list []string, s string) bool {
	for _, x := range list {
		if x == s {
			return true
		}
	}
	return false
}

// checkForward checks the forward-edge clauses for one root; edges are all edges of that
// root's chain.
func checkForward(r ref, root string, edges []dot.Edge, budget int) string {
	reach := r.reach(root)
	perSource := map[string]int{}
	set := map[dot.Edge]bool{}
	for _, e := range edges {
		if !reach[e.From] {
			return fmt.Sprintf("edge %q -> %q: source is not reachable from root %q", e.From, e.To, root)
		}
		if !contains(r.rel[e.From], e.To) {
			return fmt.Sprintf("edge %q -> %q is not a call recorded in the model (calls of source: %v)", e.From, e.To, r.rel[e.From])
		}
		perSource[e.From]++
		set[e] = true
	}
	for _, c := range r.rel[root] {
		if !set[dot.Edge{From: root, To: c}] {
			return fmt.Sprintf("direct callee %q of root %q has no edge", c, root)
		}
	}
	// budget: every expansion of A emits exactly outdeg(A) edges
	expansions := 0
	var sources []string
	for a := range perSource {
		sources = append(sources, a)
	}
	sort.Strings(sources)
	for _, a := range sources {
		n, d := perSource[a], len(r.rel[a])
		if n%d != 0 {
			return fmt.Sprintf("source %q has %d edges, not a multiple of its %d calls", a, n, d)
		}
		expansions += n / d
	}
	if expansions > budget {
		return fmt.Sprintf("%d expansions emitted, budget is %d", expansions, budget)
	}
	return missingWhenFits(r, root, set, budget)
}

// missingWhenFits: whenever the reachable call tree fits the budget, every reachable call is drawn.
func missingWhenFits(r ref, root string, set map[dot.Edge]bool, budget int) string {
	size := 0
	r.treeSize(root, budget, &size)
	if size > budget {
		return ""
	}
	var nodes []string
	for a := range r.reach(root) {
		nodes = append(nodes, a)
	}
	sort.Strings(nodes)
	for _, a := range nodes {
		for _, b := range r.rel[a] {
			if !set[dot.Edge{From: a, To: b}] {
				return fmt.Sprintf("call tree of %q needs %d expansions (budget %d) but reachable call %q -> %q is missing", root, size, budget, a, b)
			}
		}
	}
	return ""
}

func reset() {
	call.VerifResetCall()
	rcall.VerifResetRcall()
}

// judgeCall judges the text of one `call` graph against the abstract model.
func judgeCall(m mgen.Model, root string, lookup bool, out string) string {
	edges, err := dot.ParseFlat(out, "digraph G {", "rankdir = LR;")
	if err != nil {
		return fmt.Sprintf("call graph is not well-formed DOT: %v\n%s", err, out)
	}
	if err := dot.Lenient(out); err != nil {
		return fmt.Sprintf("call graph rejected by the DOT parser: %v\n%s", err, out)
	}
	r := newRef(m, nil)
	budget := call.VerifBudgetCall()
	if !lookup {
		if msg := checkForward(r, root, edges, budget); msg != "" {
			return msg + "\n" + out
		}
		return ""
	}
	// lookup: forward edges and reverse edges (caller -> callee with callee on a caller chain
	// ending at root) share one graph
	back := map[string]bool{root: true}
	inv := map[string][]string{}
	declared := map[string]bool{}
	for _, name := range m.Methods() {
		declared[name] = true
	}
	for _, a := range m.Methods() {
		for _, b := range r.rel[a] {
			if declared[b] {
				inv[b] = append(inv[b], a)
			}
		}
	}
	stack := []string{root}
	for len(stack) > 0 {
		n := stack[len(stack)-1]
		stack = stack[:len(stack)-1]
		for _, a := range inv[n] {
			if !back[a] {
				back[a] = true
				stack = append(stack, a)
			}
		}
	}
	reach := r.reach(root)
	set := map[dot.Edge]bool{}
	for _, e := range edges {
		set[e] = true
		isFwd := reach[e.From] && contains(r.rel[e.From], e.To)
		isRev := back[e.To] && contains(inv[e.To], e.From)
		if !isFwd && !isRev {
			return fmt.Sprintf("lookup graph: edge %q -> %q is neither a call reachable from %q nor a call on a caller chain ending at it\n%s", e.From, e.To, root, out)
		}
	}
	for _, cal := range r.rel[root] {
		if !set[dot.Edge{From: root, To: cal}] {
			return fmt.Sprintf("lookup graph: direct callee %q of root %q has no edge\n%s", cal, root, out)
		}
	}
	for _, a := range inv[root] {
		if a != root && !set[dot.Edge{From: a, To: root}] {
			return fmt.Sprintf("lookup graph: direct caller %q of root %q has no edge\n%s", a, root, out)
		}
	}
	if msg := missingWhenFits(r, root, set, budget); msg != "" {
		return "lookup graph: " + msg + "\n" + out
	}
	return ""
}

func checkCall(c CallCase) pbt.Verdict {
	reset()
	model := toCoca(c.Model)
	var out string
	if p := pbt.Call(func() { out = call.NewCallGraph().Analysis(c.Root, model, c.Lookup) }); p != "" {
		return pbt.Fail("Analysis panicked: %s", p)
	}
	if lc, b := call.VerifLoopCountCall(), call.VerifBudgetCall(); lc > b {
		return pbt.Fail("expansion counter %d exceeds budget %d", lc, b)
	}
	if msg := judgeCall(c.Model, c.Root, c.Lookup, out); msg != "" {
		return pbt.Fail("%s", msg)
	}
	v := classify(newRef(c.Model, nil), c.Root, c.Lookup, canon(c.Model, c.Root, nil))
	v.Classes = append(v.Classes, modelClasses(c.Model)...)
	if _, ok := c.Model.Calls()[c.Root]; !ok && contains(calleeNames(c.Model), c.Root) {
		v.Classes = append(v.Classes, "root_called_but_undeclared")
	}
	if _, ok := c.Model.Calls()[c.Root]; !ok {
		for _, d := range c.Model.Methods() {
			if strings.HasPrefix(d, c.Root) || strings.HasPrefix(c.Root, d) || strings.EqualFold(d, c.Root) || strings.TrimSpace(c.Root) == d {
				v.Classes = append(v.Classes, "root_one_step_from_declared_name")
				break
			}
		}
	}
	return v
}

func canon(m mgen.Model, root string, di map[string]string) string {
	var lines []string
	for k, list := range m.Calls() {
		for _, c := range list {
			lines = append(lines, k+">"+c)
		}
	}
	sort.Strings(lines)
	var dis []string
	for k, v := range di {
		dis = append(dis, k+"="+v)
	}
	sort.Strings(dis)
	return root + "|" + strings.Join(lines, ";") + "|" + strings.Join(dis, ";")
}

func classify(r ref, root string, lookup bool, canon string) pbt.Verdict {
	v := pbt.Verdict{Canon: canon}
	cyc := r.hasCycleFrom(root)
	wide := false
	for n := range r.reach(root) {
		if len(r.rel[n]) >= 2 {
			wide = true
		}
	}
	budget := call.VerifBudgetCall()
	size := 0
	r.treeSize(root, budget+1, &size)
	v.NonTrivial = cyc || wide
	if cyc {
		v.Classes = append(v.Classes, "cycle_reachable")
	}
	if wide {
		v.Classes = append(v.Classes, "outdegree>=2")
	}
	if size <= budget && size > 1 {
		v.Classes = append(v.Classes, "fits_budget_nonleaf")
	}
	if size == budget {
		v.Classes = append(v.Classes, "tree_size==budget")
	}
	if size == budget+1 {
		v.Classes = append(v.Classes, "tree_size==budget+1")
	}
	if size > budget {
		v.Classes = append(v.Classes, "exceeds_budget")
	}
	if len(r.rel[root]) == 0 {
		v.Classes = append(v.Classes, "root_leaf_or_absent")
	}
	if lookup {
		v.Classes = append(v.Classes, "lookup")
	}
	maxOut, arrow := 0, false
	for n := range r.reach(root) {
		if len(r.rel[n]) > maxOut {
			maxOut = len(r.rel[n])
		}
		for _, c := range r.rel[n] {
			if strings.Contains(c, " -> ") {
				arrow = true
			}
		}
	}
	if maxOut >= 10 {
		v.Classes = append(v.Classes, "outdegree>=10")
	}
	if maxOut >= 33 {
		v.Classes = append(v.Classes, "outdegree>=33")
	}
	if arrow {
		v.Classes = append(v.Classes, "reachable_callee_name_holds_edge_operator")
	}
	if !cyc {
		switch d := r.depth(root, map[string]int{}); {
		case d > budget:
			v.Classes = append(v.Classes, "acyclic_deeper_than_budget")
		case d == budget && size == budget:
			v.Classes = append(v.Classes, "chain_of_budget_methods")
		}
	}
	return v
}

// depth is the largest number of methods with callees on one call path from n (acyclic part only).
func (r ref) depth(n string, memo map[string]int) int {
	if len(r.rel[n]) == 0 {
		return 0
	}
	if d, ok := memo[n]; ok {
		return d
	}
	best := 0
	for _, c := range r.rel[n] {
		if d := r.depth(c, memo); d > best {
			best = d
		}
	}
	memo[n] = best + 1
	return best + 1
}

// modelClasses labels the shapes of the widened generator present in a model.
func modelClasses(m mgen.Model) []string {
	var out []string
	add := func(s string) {
		if !contains(out, s) {
			out = append(out, s)
		}
	}
	if strings.Contains(fmt.Sprint(m.Methods()), "\"") {
		add("quoted_names")
	}
	if strings.Contains(fmt.Sprint(m.Methods()), "$") {
		add("dollar_names")
	}
	byName := map[string][]string{}
	for _, c := range m.Classes {
		byName[c.Name] = append(byName[c.Name], c.Pkg)
		if c.Pkg == "" {
			add("default_package")
		}
		if len(c.FieldCalls) > 0 {
			add("class_level_calls")
		}
		for i, mm := range c.Methods {
			for j, other := range c.Methods {
				if i != j && mm.Name != other.Name && (strings.HasPrefix(other.Name, mm.Name) || strings.HasSuffix(other.Name, mm.Name)) {
					add("method_name_affix_of_another")
				}
			}
			for _, cc := range mm.Calls {
				if cc.Type != "" {
					add("typed_calls")
				}
				if cc.Pkg == "" && cc.Node != "" {
					add("receiver_without_package")
				}
			}
		}
	}
	for _, pkgs := range byName {
		if len(pkgs) < 2 {
			continue
		}
		add("class_name_in_two_packages")
		for _, p := range pkgs {
			for _, q := range pkgs {
				if p != q && strings.HasSuffix(q, p) {
					add("twin_class_in_suffix_package")
				}
			}
		}
	}
	if len(m.Classes) > 5 {
		add("classes>5")
	}
	if len(m.Classes) == 0 {
		add("no_classes")
	}
	lower := map[string]int{}
	for _, c := range m.Classes {
		lower[strings.ToLower(c.Full())]++
		if len(c.Extend) > 0 || len(c.Implements) > 0 {
			add("supertypes_recorded")
		}
		for _, d := range m.Classes {
			if c.Pkg == d.Pkg && c.Name != d.Name && strings.HasPrefix(d.Name, c.Name) {
				add("class_name_prefix_of_another")
			}
		}
		names := []string{c.Name}
		lowerM := map[string]int{}
		for _, mm := range c.Methods {
			names = append(names, mm.Name)
			lowerM[strings.ToLower(mm.Name)]++
			for _, cc := range mm.Calls {
				names = append(names, cc.Node)
				if cc.Node == "" && cc.Pkg != "" {
					add("empty_receiver_with_package")
				}
				if strings.HasPrefix(cc.Node, "\"") || strings.HasPrefix(cc.Node, "(") {
					add("literal_receiver")
				}
			}
		}
		for _, n := range lowerM {
			if n > 1 {
				add("method_names_differ_in_case_only")
			}
		}
		for _, n := range names {
			switch {
			case len(n) > 65536:
				add("name_longer_than_64KiB")
			case len(n) >= 5000:
				add("name_of_5000_bytes")
			case len(n) >= 300:
				add("name_of_300_bytes")
			}
			if len(n) != utf8.RuneCountInString(n) {
				add("non_ascii_names")
			}
			if strings.Contains(n, " -> ") {
				add("edge_operator_in_name")
			}
			if strings.Contains(n, "_") {
				add("underscore_names")
			}
			switch n {
			case "node", "edge", "graph", "digraph", "strict", "subgraph":
				add("dot_keyword_names")
			}
		}
	}
	for _, n := range lower {
		if n > 1 {
			add("class_names_differ_in_case_only")
		}
	}
	return out
}

// judgeApi judges the text of an `api` graph; it returns the number of edges of each API's chain.
func judgeApi(m mgen.Model, di map[string]string, apis []Api, out string) (chainEdges []int, msg string) {
	edges, err := dot.ParseFlat(out, "digraph G {")
	if err != nil {
		return nil, fmt.Sprintf("api graph is not well-formed DOT: %v\n%s", err, out)
	}
	if err := dot.Lenient(out); err != nil {
		return nil, fmt.Sprintf("api graph rejected by the DOT parser: %v\n%s", err, out)
	}
	// split into one block per API: header edges are the ones whose source contains a blank
	var blocks [][]dot.Edge
	var headers []dot.Edge
	for _, e := range edges {
		if strings.Contains(e.From, " ") {
			headers = append(headers, e)
			blocks = append(blocks, nil)
			continue
		}
		if len(blocks) == 0 {
			return nil, fmt.Sprintf("edge %q -> %q before any API header\n%s", e.From, e.To, out)
		}
		blocks[len(blocks)-1] = append(blocks[len(blocks)-1], e)
	}
	if len(headers) != len(apis) {
		return nil, fmt.Sprintf("%d API header edges for %d APIs\n%s", len(headers), len(apis), out)
	}
	r := newRef(m, di)
	for i, a := range apis {
		caller := a.Pkg + "." + a.Class + "." + a.Method
		if headers[i].From != a.Verb+" "+a.Uri || headers[i].To != caller {
			return nil, fmt.Sprintf("API %d header edge is %q -> %q, want %q -> %q", i, headers[i].From, headers[i].To, a.Verb+" "+a.Uri, caller)
		}
		if msg := checkForward(r, caller, blocks[i], call.VerifBudgetCall()); msg != "" {
			return nil, fmt.Sprintf("API %d (%s): %s\n%s", i, caller, msg, out)
		}
		chainEdges = append(chainEdges, len(blocks[i]))
	}
	return chainEdges, ""
}

func restApis(apis []Api) []api_domain.RestAPI {
	var out []api_domain.RestAPI
	for _, a := range apis {
		out = append(out, api_domain.RestAPI{HttpMethod: a.Verb, Uri: a.Uri, PackageName: a.Pkg, ClassName: a.Class, MethodName: a.Method})
	}
	return out
}

func sizeRow(size int, verb, uri, caller string) string {
	return strconv.Itoa(size) + " " + verb + " " + uri + " " + caller
}

// judgeSizes: one entry per API, in API order, each naming its API and the size of its chain;
// sorting the entries (what `coca api -s` does) must keep each size with its API.
func judgeSizes(apis []Api, chainEdges []int, counts []api_domain.CallAPI) string {
	if len(counts) != len(apis) {
		return fmt.Sprintf("%d API size entries for %d APIs", len(counts), len(apis))
	}
	var want []string
	for i, a := range apis {
		caller := a.Pkg + "." + a.Class + "." + a.Method
		if counts[i].Size != chainEdges[i]+1 {
			return fmt.Sprintf("API %d (%s): Size %d but its chain has %d edges", i, caller, counts[i].Size, chainEdges[i])
		}
		if counts[i].Caller != caller || counts[i].HTTPMethod != a.Verb || counts[i].URI != a.Uri {
			return fmt.Sprintf("API %d: size entry names %v", i, counts[i])
		}
		want = append(want, sizeRow(chainEdges[i]+1, a.Verb, a.Uri, caller))
	}
	sorted := append([]api_domain.CallAPI(nil), counts...)
	if p := pbt.Call(func() { api_domain.SortAPIs(sorted) }); p != "" {
		return "SortAPIs panicked: " + p
	}
	var got []string
	for _, c := range sorted {
		got = append(got, sizeRow(c.Size, c.HTTPMethod, c.URI, c.Caller))
	}
	sort.Strings(got)
	sort.Strings(want)
	if strings.Join(got, "\n") != strings.Join(want, "\n") {
		return fmt.Sprintf("after SortAPIs the size entries are\n%s\nthe chains give\n%s", strings.Join(got, "\n"), strings.Join(want, "\n"))
	}
	return ""
}

func apiClasses(m mgen.Model, di map[string]string, apis []Api) (classes []string, nonTrivial bool) {
	r := newRef(m, di)
	for _, a := range apis {
		sub := classify(r, a.Pkg+"."+a.Class+"."+a.Method, false, "")
		if sub.NonTrivial {
			nonTrivial = true
		}
		classes = append(classes, sub.Classes...)
	}
	if len(apis) >= 2 {
		classes = append(classes, "apis>=2")
	}
	if len(di) > 0 {
		classes = append(classes, "di_map")
	}
	// DI shapes
	calls := map[string]bool{}
	for _, c := range calleeNames(m) {
		calls[className(c)] = true
	}
	for k, v := range di {
		if _, ok := di[v]; ok && v != k {
			classes = append(classes, "di_impl_is_itself_injected")
			break
		}
	}
	for k := range di {
		if calls[k] {
			classes = append(classes, "di_key_is_called")
			break
		}
	}
	declared := map[string]bool{}
	for _, c := range m.Classes {
		declared[c.Full()] = true
	}
	var keys []string
	for k := range di {
		keys = append(keys, k)
	}
	sort.Strings(keys)
	identity, outside, head := false, false, false
	for _, k := range keys {
		if di[k] == k {
			identity = true
		}
		if !declared[di[k]] && calls[k] {
			outside = true
		}
		for c := range calls {
			if _, isKey := di[c]; c != k && strings.HasPrefix(c, k) && !isKey {
				head = true
			}
		}
	}
	if identity {
		classes = append(classes, "di_identity_entry")
	}
	if outside {
		classes = append(classes, "di_called_key_to_impl_outside_model")
	}
	if head {
		classes = append(classes, "di_key_is_prefix_of_called_class")
	}
	seenApi := map[Api]bool{}
	for _, a := range apis {
		if seenApi[a] {
			classes = append(classes, "same_api_entry_twice")
			break
		}
		seenApi[a] = true
	}
	for _, a := range apis {
		if strings.Contains(a.Uri, " -> ") {
			classes = append(classes, "uri_holds_edge_operator")
			break
		}
	}
	if len(apis) > 8 {
		classes = append(classes, "apis>8")
	}
	if len(apis) > 12 {
		classes = append(classes, "apis>12")
	}
	for k := range di {
		hit := false
		for c := range calls {
			if c != k && strings.HasSuffix(c, k) {
				if _, isKey := di[c]; !isKey {
					hit = true
				}
			}
		}
		if hit {
			classes = append(classes, "di_key_is_suffix_of_called_class")
			break
		}
	}
	return classes, nonTrivial
}

func checkApi(c ApiCase) pbt.Verdict {
	reset()
	model := toCoca(c.Model)
	di := c.DI
	if c.NilDI && len(di) == 0 {
		di = nil
	}
	var out string
	var counts []api_domain.CallAPI
	if p := pbt.Call(func() { out, counts = call.NewCallGraph().AnalysisByFiles(restApis(c.Apis), model, di) }); p != "" {
		return pbt.Fail("AnalysisByFiles panicked: %s", p)
	}
	chainEdges, msg := judgeApi(c.Model, c.DI, c.Apis, out)
	if msg != "" {
		return pbt.Fail("%s", msg)
	}
	if msg := judgeSizes(c.Apis, chainEdges, counts); msg != "" {
		return pbt.Fail("%s\n%s", msg, out)
	}
	v := pbt.Verdict{Canon: canon(c.Model, fmt.Sprint(c.Apis), c.DI)}
	v.Classes, v.NonTrivial = apiClasses(c.Model, c.DI, c.Apis)
	v.Classes = append(v.Classes, modelClasses(c.Model)...)
	return v
}

// checkSeq runs the steps one after the other in this process on data converted once, with no
// reset in between: every generation has to satisfy the statement on its own.
func checkSeq(c SeqCase) pbt.Verdict {
	reset()
	var data [][]core_domain.CodeDataStruct
	for _, m := range c.Models {
		data = append(data, toCoca(m))
	}
	di := map[string]string{}
	for k, v := range c.DI {
		di[k] = v
	}
	v := pbt.Verdict{}
	var canons []string
	for i, s := range c.Steps {
		if s.Model < 0 || s.Model >= len(c.Models) {
			return pbt.Verdict{Skip: true}
		}
		m := c.Models[s.Model]
		switch s.Kind {
		case "call":
			var out string
			if p := pbt.Call(func() { out = call.NewCallGraph().Analysis(s.Root, data[s.Model], s.Lookup) }); p != "" {
				return pbt.Fail("step %d: Analysis panicked: %s", i, p)
			}
			if lc, b := call.VerifLoopCountCall(), call.VerifBudgetCall(); lc > b {
				return pbt.Fail("step %d: expansion counter %d exceeds budget %d", i, lc, b)
			}
			if msg := judgeCall(m, s.Root, s.Lookup, out); msg != "" {
				return pbt.Fail("step %d (call %q, lookup=%v, model %d) after %d earlier generations in this process: %s", i, s.Root, s.Lookup, s.Model, i, msg)
			}
			sub := classify(newRef(m, nil), s.Root, s.Lookup, "")
			v.NonTrivial = v.NonTrivial || sub.NonTrivial
			canons = append(canons, canon(m, s.Root, nil))
		case "api":
			var stepDI map[string]string
			var refDI map[string]string
			if s.UseDI {
				stepDI, refDI = di, c.DI
			}
			var out string
			var counts []api_domain.CallAPI
			if p := pbt.Call(func() { out, counts = call.NewCallGraph().AnalysisByFiles(restApis(s.Apis), data[s.Model], stepDI) }); p != "" {
				return pbt.Fail("step %d: AnalysisByFiles panicked: %s", i, p)
			}
			chainEdges, msg := judgeApi(m, refDI, s.Apis, out)
			if msg == "" {
				msg = judgeSizes(s.Apis, chainEdges, counts)
			}
			if msg != "" {
				return pbt.Fail("step %d (api, model %d) after %d earlier generations in this process: %s", i, s.Model, i, msg)
			}
			_, nt := apiClasses(m, refDI, s.Apis)
			v.NonTrivial = v.NonTrivial || nt
			canons = append(canons, canon(m, fmt.Sprint(s.Apis), refDI))
		default:
			return pbt.Verdict{Skip: true}
		}
		v.Classes = append(v.Classes, "step_"+s.Kind)
		if i > 0 && c.Steps[i-1].Model != s.Model {
			v.Classes = append(v.Classes, "model_switched")
		}
		if i > 0 && c.Steps[i-1].Kind == "call" && s.Kind == "call" && c.Steps[i-1].Root == s.Root {
			if c.Steps[i-1].Model == s.Model {
				v.Classes = append(v.Classes, "same_root_same_model_again")
			} else {
				v.Classes = append(v.Classes, "same_root_other_model")
			}
		}
	}
	v.Canon = strings.Join(canons, "||")
	return v
}

// ---- the real binary -------------------------------------------------------------------

func stripScratch(s, dir string) string { return strings.ReplaceAll(s, dir, "<scratch>") }

// layoutJSON writes v the way one of several writers would: 0 compact on one line, 1 what coca
// itself writes (tab-indented), 2 the same with CRLF line ends and blank lines at the end, 3 indented
// with blanks, blank lines in front, no final newline. (No string in these files holds a line break.)
func layoutJSON(v interface{}, layout int) string {
	switch layout {
	case 1:
		raw, _ := json.MarshalIndent(v, "", "\t")
		return string(raw)
	case 2:
		raw, _ := json.MarshalIndent(v, "", "\t")
		return strings.ReplaceAll(string(raw), "\n", "\r\n") + "\r\n\r\n"
	case 3:
		raw, _ := json.MarshalIndent(v, "  ", "  ")
		return "\n \n  " + string(raw)
	}
	raw, _ := json.Marshal(v)
	return string(raw)
}

const altDeps = "in put/deps copy.json"

// cliArgs spells the command line in one of the ways the option parser accepts; all of them ask
// for the same thing. Spelling 4 reads the dependence file from another place.
func cliArgs(c CliCase) (args []string, depsRel string) {
	depsRel = "coca_reporter/deps.json"
	flag := func(on bool, s ...string) []string {
		if on {
			return s
		}
		return nil
	}
	if c.Mode == "api" {
		switch c.Spell {
		case 1:
			return append([]string{"api", "--count"}, flag(c.Sort, "--sort")...), depsRel
		case 2:
			if c.Sort {
				return []string{"api", "-sc"}, depsRel
			}
			return []string{"api", "--count=true"}, depsRel
		case 3:
			return append(append([]string{"api"}, flag(c.Sort, "--sort=true")...), "-c", "-a", ""), depsRel
		case 4:
			return append([]string{"api", "-c", "-d", altDeps}, flag(c.Sort, "-s")...), altDeps
		case 5: // every generated URI starts with a slash
			return append([]string{"api", "-c", "--aggregate=/"}, flag(c.Sort, "-s")...), depsRel
		case 6:
			return append([]string{"api", "-c", "-r", ""}, flag(c.Sort, "-s")...), depsRel
		}
		return append([]string{"api", "-c"}, flag(c.Sort, "-s")...), depsRel
	}
	switch c.Spell {
	case 1:
		return append([]string{"call", "--className", c.Root}, flag(c.Lookup, "--lookup")...), depsRel
	case 2:
		return append([]string{"call", "--className=" + c.Root}, flag(c.Lookup, "--lookup=true")...), depsRel
	case 3:
		return append(append([]string{"call"}, flag(c.Lookup, "-l")...), "-c", c.Root), depsRel
	case 4:
		return append([]string{"call", "-d", altDeps, "-c", c.Root}, flag(c.Lookup, "-l")...), altDeps
	case 5:
		return append([]string{"call", "-c", c.Root, "--remove="}, flag(c.Lookup, "-l")...), depsRel
	case 6:
		if c.Root != "" && c.Lookup {
			return []string{"call", "-lc", c.Root}, depsRel
		}
		if c.Root != "" {
			return []string{"call", "-c" + c.Root}, depsRel
		}
	}
	return append([]string{"call", "-c", c.Root}, flag(c.Lookup, "-l")...), depsRel
}

func checkCli(c CliCase) pbt.Verdict {
	dir := cli.Scratch("c03-")
	defer os.RemoveAll(dir)
	data := toCoca(c.Model)
	if data == nil {
		data = []core_domain.CodeDataStruct{}
	}
	args, depsRel := cliArgs(c)
	files := map[string]string{depsRel: layoutJSON(data, c.Layout), "coca_reporter/identify.json": "[]"}
	if c.Mode == "api" {
		list := restApis(c.Apis)
		if list == nil {
			list = []api_domain.RestAPI{}
		}
		files["coca_reporter/apis.json"] = layoutJSON(list, c.Layout)
	}
	cli.WriteTree(dir, files)
	res, err := cli.Run("coca", dir, nil, args...)
	if err != nil {
		panic("cannot run coca: " + err.Error())
	}
	if res.TimedOut {
		return pbt.Verdict{Skip: true}
	}
	shown := "coca " + strings.Join(args, " ")
	if res.ExitCode != 0 {
		return pbt.Fail("`%s` exited with %d\n%s", shown, res.ExitCode, stripScratch(res.Stderr, dir))
	}
	if c.Mode != "api" {
		raw, err := os.ReadFile(filepath.Join(dir, "coca_reporter", "call.dot"))
		if err != nil {
			return pbt.Fail("`%s` wrote no coca_reporter/call.dot", shown)
		}
		if msg := judgeCall(c.Model, c.Root, c.Lookup, string(raw)); msg != "" {
			return pbt.Fail("`%s`, coca_reporter/call.dot: %s", shown, msg)
		}
		v := classify(newRef(c.Model, nil), c.Root, c.Lookup, "cli|"+canon(c.Model, c.Root, nil))
		v.Classes = append(v.Classes, "cli_call", fmt.Sprintf("cli_layout_%d", c.Layout), fmt.Sprintf("cli_spelling_%d", c.Spell))
		v.Classes = append(v.Classes, modelClasses(c.Model)...)
		return v
	}
	raw, err := os.ReadFile(filepath.Join(dir, "coca_reporter", "api.dot"))
	if err != nil {
		return pbt.Fail("`%s` wrote no coca_reporter/api.dot", shown)
	}
	chainEdges, msg := judgeApi(c.Model, nil, c.Apis, string(raw))
	if msg != "" {
		return pbt.Fail("`%s`, coca_reporter/api.dot: %s", shown, msg)
	}
	var want []string
	for i, a := range c.Apis {
		want = append(want, sizeRow(chainEdges[i]+1, a.Verb, a.Uri, a.Pkg+"."+a.Class+"."+a.Method))
	}
	sort.Strings(want)
	// the Size column: stdout table of -c, and coca_reporter/api.csv
	var table []string
	for _, l := range strings.Split(res.Stdout, "\n") {
		l = strings.TrimSpace(l)
		if !strings.HasPrefix(l, "|") || strings.HasPrefix(l, "|--") || strings.Contains(l, "| SIZE |") || strings.HasPrefix(l, "| SIZE") {
			continue
		}
		var cells []string
		for _, cell := range strings.Split(strings.Trim(l, "|"), "|") {
			cells = append(cells, strings.TrimSpace(cell))
		}
		table = append(table, strings.Join(cells, " "))
	}
	sort.Strings(table)
	if strings.Join(table, "\n") != strings.Join(want, "\n") {
		return pbt.Fail("`%s`: the table (Size, Method, URI, Caller) lists\n%s\nthe chains in coca_reporter/api.dot give\n%s\n%s", shown, strings.Join(table, "\n"), strings.Join(want, "\n"), string(raw))
	}
	csvRaw, err := os.ReadFile(filepath.Join(dir, "coca_reporter", "api.csv"))
	if err != nil {
		return pbt.Fail("`%s` wrote no coca_reporter/api.csv", shown)
	}
	var csv []string
	for i, l := range strings.Split(string(csvRaw), "\n") {
		if i == 0 || strings.TrimSpace(l) == "" {
			continue
		}
		var cells []string
		for _, cell := range strings.Split(l, ",") {
			cells = append(cells, strings.TrimSpace(cell))
		}
		csv = append(csv, strings.Join(cells, " "))
	}
	sort.Strings(csv)
	if strings.Join(csv, "\n") != strings.Join(want, "\n") {
		return pbt.Fail("`%s`: coca_reporter/api.csv lists\n%s\nthe chains in coca_reporter/api.dot give\n%s", shown, strings.Join(csv, "\n"), strings.Join(want, "\n"))
	}
	v := pbt.Verdict{Canon: "cli|" + canon(c.Model, fmt.Sprint(c.Apis), nil)}
	v.Classes, v.NonTrivial = apiClasses(c.Model, nil, c.Apis)
	v.Classes = append(v.Classes, "cli_api", fmt.Sprintf("cli_layout_%d", c.Layout), fmt.Sprintf("cli_spelling_%d", c.Spell))
	v.Classes = append(v.Classes, modelClasses(c.Model)...)
	if c.Sort {
		v.Classes = append(v.Classes, "cli_api_sorted")
	}
	return v
}

func init() {
	pbt.SetProperty("C03")
	pbt.Describe("rapid-generated code models (1-5, sometimes up to 8 classes over 7 package names and the default package, 0-4 methods each plus an optional constructor, 0-4 calls per method drawn from: declared methods incl. self, undeclared methods (also names declared elsewhere), external classes, receivers without package, empty receiver, constructor form, with the call Types the Java front end writes; class simple names shared between packages, preferably packages one of which is a suffix of the other; method names that are prefixes/suffixes of each other; names with a double quote or '$'; class-level (field initialiser) calls; one quarter of the models acyclic by construction and one quarter a call tree of exactly 5-9 expandable methods, so that trees sit on both sides of the budget), a root (declared caller / declared leaf / absent / a name that only occurs as callee), lookup on/off; for the api check additionally a DI map of 0-4 replacements (project class, external interface, chains, swaps; nil map) and 0-6 REST APIs (two routes may share a handler). Widened by the audit of input dimensions, each shape behind its own draw: no class at all; callees whose receiver is the expression text the Java front end records for a call on a string literal (`\"a -> b\".length()`: blanks, the edge operator ' -> ', ';', braces, DOT keywords inside a quoted name) and call arguments with such texts; non-ASCII names, names differing only in case, '_' names, names equal to DOT keywords, names of 300 and 5000 bytes, one callee name of 70000 bytes; a class whose name is the head of another class's name in the same package (C0 / C00 / C0$1), also as DI key; DI entries to an implementation outside the model and identity entries; extends/implements, imports, fields (data the relation does not depend on); an empty receiver with a package; one method with 10-65 calls; call trees that are chains (depth = size, also exactly the budget) and trees of 12-24 expandable methods; roots one step from a declared name (last character dropped or added, other case, blank or dot added, empty); 9-20 REST APIs, the same API entry twice, verbs PATCH and lower case, URIs with regex templates, ';', '.', '->', non-ASCII and (in-process only) blanks and ' -> '. Sub-check seq: 2-4 generations (call, call -l, api) in one process without reset on one or two models that share class and method names. Sub-check cli: the same through `coca call [-l]` and `coca api -c [-s]` on written deps.json / apis.json, laid out compact, tab-indented (what coca writes), with CRLF line ends and trailing blank lines, or blank-indented with leading blank lines and no final newline; the command line spelled in 7 ways (-c v, --className v, --className=v, -cv, -lc v, flags first, --count/--sort[=true], -sc, explicit empty -a/-r, --aggregate=/, -d with the dependence file in another directory whose name holds a blank). Oracle: reference call relation computed from the abstract model (DI applied), reachability, depth-first tree size; SortAPIs must keep each size with its API. Non-trivial = a cycle or a node of out-degree >= 2 is reachable from the root; distinct = hash of (root or api list, sorted call relation, DI map).",
		"names contain no backslash, no line break and no dot inside a simple name; blanks occur only inside receiver texts of calls on literals (never in a declared name, so an API header edge is told from a call edge by the blank in its source); URIs contain no double quote, backslash, comma or '|', blank-free verbs; URIs with blanks are not used where the -c table is read back (the table writer may wrap them)",
		"a DI key that equals the package of a constructor-form callee (`new a.C0()` with key `a`) is not generated: the statement does not say whether that is a call through an injected interface",
		"the generator feature 'edge-operator-in-name' (receiver texts holding ' -> ') is switched off while known_findings.json lists a known finding of C03 tied to it",
		"the expansion budget is read from the code through the verif hook (VerifBudget) so that the check follows a deliberate change of the constant",
		"in lookup mode: every edge is a forward or a reverse call, direct callees and direct callers of the root are present, and all reachable calls are present when the call tree fits the budget; the remaining reverse clauses are C04's subject",
		"two functions of one full name in a class (overloads) are not generated: the statement does not say which of them a root name denotes",
		"the cli sub-check runs `coca api` with an empty identifier list (no DI replacement): how the command line derives the DI map is not this property's subject; the order of the Size rows is not asserted")
	pbt.Register("call", 6000, 60000, genCall, checkCall)
	pbt.Register("api", 4000, 40000, genApi, checkApi)
	pbt.Register("seq", 3000, 30000, genSeq, checkSeq)
	pbt.Register("cli", 100, 400, genCli, checkCli)
}

func TestProp(t *testing.T)   { pbt.Main(t) }
func TestReplay(t *testing.T) { pbt.Replay(t) }
