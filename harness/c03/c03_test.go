// C03 — call graph shows only real calls, all direct callees of the root, and terminates.
package c03

import (
	"fmt"
	"sort"
	"strings"
	"testing"

	"github.com/modernizing/coca/pkg/application/call"
	"github.com/modernizing/coca/pkg/application/rcall"
	"github.com/modernizing/coca/pkg/domain/api_domain"
	"pgregory.net/rapid"

	"verif/internal/dot"
	"verif/internal/mgen"
	"verif/internal/pbt"
)

type CallCase struct {
	Model  mgen.Model `json:"model"`
	Root   string     `json:"root"`
	Lookup bool       `json:"lookup"`
}

type Api struct {
	Verb, Uri, Pkg, Class, Method string
}

type ApiCase struct {
	Model mgen.Model        `json:"model"`
	DI    map[string]string `json:"di"`
	Apis  []Api             `json:"apis"`
}

func genRoot(t *rapid.T, m mgen.Model) string {
	methods := m.Methods()
	k := rapid.IntRange(0, 11).Draw(t, "rootKind")
	if k == 0 || len(methods) == 0 {
		return "zz.Absent.nothing"
	}
	if k < 8 {
		// prefer a root that calls something
		var callers []string
		calls := m.Calls()
		for _, name := range methods {
			if len(calls[name]) > 0 {
				callers = append(callers, name)
			}
		}
		if len(callers) > 0 {
			return rapid.SampledFrom(callers).Draw(t, "root")
		}
	}
	return rapid.SampledFrom(methods).Draw(t, "root")
}

func genCall(t *rapid.T) CallCase {
	m := mgen.Gen(t, mgen.Options{Quotes: true})
	return CallCase{Model: m, Root: genRoot(t, m), Lookup: rapid.IntRange(0, 4).Draw(t, "lookup") == 0}
}

func genApi(t *rapid.T) ApiCase {
	m := mgen.Gen(t, mgen.Options{Quotes: true})
	c := ApiCase{Model: m, DI: map[string]string{}}
	if len(m.Classes) > 1 {
		n := rapid.IntRange(0, 2).Draw(t, "nDI")
		for i := 0; i < n; i++ {
			from := rapid.SampledFrom(m.Classes).Draw(t, "diFrom")
			to := rapid.SampledFrom(m.Classes).Draw(t, "diTo")
			c.DI[from.Full()] = to.Full()
		}
	}
	n := rapid.IntRange(0, 5).Draw(t, "nApis")
	methods := m.Methods()
	for i := 0; i < n; i++ {
		a := Api{Verb: rapid.SampledFrom([]string{"GET", "POST", "PUT", "DELETE"}).Draw(t, "verb"),
			Uri: "/" + rapid.StringMatching(`[a-z]{1,3}(/[a-z{}]{1,4}){0,2}`).Draw(t, "uri")}
		if len(methods) == 0 || rapid.IntRange(0, 9).Draw(t, "absent") == 0 {
			a.Pkg, a.Class, a.Method = "zz", "Absent", "nothing"
		} else {
			ci := rapid.IntRange(0, len(m.Classes)-1).Draw(t, "apiClass")
			cl := m.Classes[ci]
			if len(cl.Methods) == 0 {
				a.Pkg, a.Class, a.Method = cl.Pkg, cl.Name, "ghost"
			} else {
				mm := rapid.SampledFrom(cl.Methods).Draw(t, "apiMethod")
				if len(mm.Calls) == 0 {
					mm = rapid.SampledFrom(cl.Methods).Draw(t, "apiMethod2")
				}
				a.Pkg, a.Class, a.Method = cl.Pkg, cl.Name, mm.Name
			}
		}
		c.Apis = append(c.Apis, a)
	}
	return c
}

// ---- reference model -------------------------------------------------------------------

type ref struct {
	rel map[string][]string // method -> callees after DI replacement, in order
}

func className(full string) string {
	i := strings.LastIndex(full, ".")
	if i < 0 {
		return ""
	}
	return full[:i]
}

func methodName(full string) string {
	return full[strings.LastIndex(full, ".")+1:]
}

func newRef(m mgen.Model, di map[string]string) ref {
	r := ref{rel: map[string][]string{}}
	for k, list := range m.Calls() {
		var out []string
		for _, c := range list {
			if impl, ok := di[className(c)]; ok {
				c = impl + "." + methodName(c)
			}
			out = append(out, c)
		}
		r.rel[k] = out
	}
	return r
}

func (r ref) reach(root string) map[string]bool {
	seen := map[string]bool{root: true}
	stack := []string{root}
	for len(stack) > 0 {
		n := stack[len(stack)-1]
		stack = stack[:len(stack)-1]
		for _, c := range r.rel[n] {
			if !seen[c] {
				seen[c] = true
				stack = append(stack, c)
			}
		}
	}
	return seen
}

// treeSize is the number of expansions a depth-first unfolding of the call tree needs:
// the root plus every occurrence of a callee that itself has callees. Stops counting above cap.
func (r ref) treeSize(n string, cap int, acc *int) {
	*acc++
	if *acc > cap {
		return
	}
	for _, c := range r.rel[n] {
		if len(r.rel[c]) > 0 {
			r.treeSize(c, cap, acc)
			if *acc > cap {
				return
			}
		}
	}
}

func (r ref) hasCycleFrom(root string) bool {
	state := map[string]int{}
	var dfs func(n string) bool
	dfs = func(n string) bool {
		state[n] = 1
		for _, c := range r.rel[n] {
			if state[c] == 1 {
				return true
			}
			if state[c] == 0 && dfs(c) {
				return true
			}
		}
		state[n] = 2
		return false
	}
	return dfs(root)
}

func contains(list []string, s string) bool {
	for _, x := range list {
		if x == s {
			return true
		}
	}
	return false
}

// checkForward checks the forward-edge clauses for one root. edges are the forward edges
// of that root's chain; exact says whether they are known to be *all* of the chain's edges
// (false in lookup mode, where reverse edges are mixed in and were filtered out by the caller).
func checkForward(r ref, root string, edges []dot.Edge, budget int) string {
	reach := r.reach(root)
	perSource := map[string]int{}
	set := map[dot.Edge]bool{}
	for _, e := range edges {
		if !reach[e.From] {
			return fmt.Sprintf("edge %q -> %q: source is not reachable from root %q", e.From, e.To, root)
		}
		if !contains(r.rel[e.From], e.To) {
			return fmt.Sprintf("edge %q -> %q is not a call recorded in the model (calls of source: %v)", e.From, e.To, r.rel[e.From])
		}
		perSource[e.From]++
		set[e] = true
	}
	for _, c := range r.rel[root] {
		if !set[dot.Edge{From: root, To: c}] {
			return fmt.Sprintf("direct callee %q of root %q has no edge", c, root)
		}
	}
	// budget: every expansion of A emits exactly outdeg(A) edges
	expansions := 0
	for a, n := range perSource {
		d := len(r.rel[a])
		if n%d != 0 {
			return fmt.Sprintf("source %q has %d edges, not a multiple of its %d calls", a, n, d)
		}
		expansions += n / d
	}
	if expansions > budget {
		return fmt.Sprintf("%d expansions emitted, budget is %d", expansions, budget)
	}
	size := 0
	r.treeSize(root, budget, &size)
	if size <= budget {
		for a := range reach {
			for _, b := range r.rel[a] {
				if !set[dot.Edge{From: a, To: b}] {
					return fmt.Sprintf("call tree of %q needs %d expansions (budget %d) but reachable call %q -> %q is missing", root, size, budget, a, b)
				}
			}
		}
	}
	return ""
}

func reset() {
	call.VerifResetCall()
	rcall.VerifResetRcall()
}

func checkCall(c CallCase) pbt.Verdict {
	reset()
	model := c.Model.ToCoca()
	var out string
	if p := pbt.Call(func() { out = call.NewCallGraph().Analysis(c.Root, model, c.Lookup) }); p != "" {
		return pbt.Fail("Analysis panicked: %s", p)
	}
	if lc, b := call.VerifLoopCountCall(), call.VerifBudgetCall(); lc > b {
		return pbt.Fail("expansion counter %d exceeds budget %d", lc, b)
	}
	quoted := strings.Contains(fmt.Sprint(c.Model.Methods()), "\"")
	edges, err := dot.ParseFlat(out, "digraph G {", "rankdir = LR;")
	if err != nil {
		return pbt.Fail("call graph is not well-formed DOT: %v\n%s", err, out)
	}
	if err := dot.Lenient(out); err != nil {
		return pbt.Fail("call graph rejected by the DOT parser: %v\n%s", err, out)
	}
	r := newRef(c.Model, nil)
	forward := edges
	if c.Lookup {
		// reverse edges: caller -> callee with callee on a caller chain ending at root
		forward = nil
		back := map[string]bool{c.Root: true}
		inv := map[string][]string{}
		declared := map[string]bool{}
		for _, m := range c.Model.Methods() {
			declared[m] = true
		}
		for a, list := range r.rel {
			for _, b := range list {
				if declared[b] {
					inv[b] = append(inv[b], a)
				}
			}
		}
		stack := []string{c.Root}
		for len(stack) > 0 {
			n := stack[len(stack)-1]
			stack = stack[:len(stack)-1]
			for _, a := range inv[n] {
				if !back[a] {
					back[a] = true
					stack = append(stack, a)
				}
			}
		}
		reach := r.reach(c.Root)
		for _, e := range edges {
			isFwd := reach[e.From] && contains(r.rel[e.From], e.To)
			isRev := back[e.To] && contains(inv[e.To], e.From)
			if !isFwd && !isRev {
				return pbt.Fail("lookup graph: edge %q -> %q is neither a call reachable from %q nor a call on a caller chain ending at it", e.From, e.To, c.Root)
			}
			if isFwd {
				forward = append(forward, e)
			}
		}
		for _, cal := range r.rel[c.Root] {
			found := false
			for _, e := range edges {
				if e.From == c.Root && e.To == cal {
					found = true
				}
			}
			if !found {
				return pbt.Fail("lookup graph: direct callee %q of root %q has no edge", cal, c.Root)
			}
		}
	} else if msg := checkForward(r, c.Root, forward, call.VerifBudgetCall()); msg != "" {
		return pbt.Fail("%s\n%s", msg, out)
	}
	return classify(r, c.Root, c.Lookup, quoted, canon(c.Model, c.Root, nil))
}

func canon(m mgen.Model, root string, di map[string]string) string {
	var lines []string
	for k, list := range m.Calls() {
		for _, c := range list {
			lines = append(lines, k+">"+c)
		}
	}
	sort.Strings(lines)
	var dis []string
	for k, v := range di {
		dis = append(dis, k+"="+v)
	}
	sort.Strings(dis)
	return root + "|" + strings.Join(lines, ";") + "|" + strings.Join(dis, ";")
}

func classify(r ref, root string, lookup, quoted bool, canon string) pbt.Verdict {
	v := pbt.Verdict{Canon: canon}
	cyc := r.hasCycleFrom(root)
	wide := false
	for n := range r.reach(root) {
		if len(r.rel[n]) >= 2 {
			wide = true
		}
	}
	size := 0
	r.treeSize(root, 7, &size)
	v.NonTrivial = cyc || wide
	if cyc {
		v.Classes = append(v.Classes, "cycle_reachable")
	}
	if wide {
		v.Classes = append(v.Classes, "outdegree>=2")
	}
	if size <= 7 && size > 1 {
		v.Classes = append(v.Classes, "fits_budget_nonleaf")
	}
	if size > 7 {
		v.Classes = append(v.Classes, "exceeds_budget")
	}
	if len(r.rel[root]) == 0 {
		v.Classes = append(v.Classes, "root_leaf_or_absent")
	}
	if lookup {
		v.Classes = append(v.Classes, "lookup")
	}
	if quoted {
		v.Classes = append(v.Classes, "quoted_names")
	}
	return v
}

func checkApi(c ApiCase) pbt.Verdict {
	reset()
	model := c.Model.ToCoca()
	var apis []api_domain.RestAPI
	for _, a := range c.Apis {
		apis = append(apis, api_domain.RestAPI{HttpMethod: a.Verb, Uri: a.Uri, PackageName: a.Pkg, ClassName: a.Class, MethodName: a.Method})
	}
	var out string
	var counts []api_domain.CallAPI
	if p := pbt.Call(func() { out, counts = call.NewCallGraph().AnalysisByFiles(apis, model, c.DI) }); p != "" {
		return pbt.Fail("AnalysisByFiles panicked: %s", p)
	}
	edges, err := dot.ParseFlat(out, "digraph G {")
	if err != nil {
		return pbt.Fail("api graph is not well-formed DOT: %v\n%s", err, out)
	}
	if err := dot.Lenient(out); err != nil {
		return pbt.Fail("api graph rejected by the DOT parser: %v\n%s", err, out)
	}
	if len(counts) != len(c.Apis) {
		return pbt.Fail("%d API size entries for %d APIs", len(counts), len(c.Apis))
	}
	// split into one block per API: header edges are the ones whose source contains a blank
	var blocks [][]dot.Edge
	var headers []dot.Edge
	for _, e := range edges {
		if strings.Contains(e.From, " ") {
			headers = append(headers, e)
			blocks = append(blocks, nil)
			continue
		}
		if len(blocks) == 0 {
			return pbt.Fail("edge %q -> %q before any API header\n%s", e.From, e.To, out)
		}
		blocks[len(blocks)-1] = append(blocks[len(blocks)-1], e)
	}
	if len(headers) != len(c.Apis) {
		return pbt.Fail("%d API header edges for %d APIs\n%s", len(headers), len(c.Apis), out)
	}
	r := newRef(c.Model, c.DI)
	v := pbt.Verdict{Canon: canon(c.Model, fmt.Sprint(c.Apis), c.DI)}
	for i, a := range c.Apis {
		caller := a.Pkg + "." + a.Class + "." + a.Method
		if headers[i].From != a.Verb+" "+a.Uri || headers[i].To != caller {
			return pbt.Fail("API %d header edge is %q -> %q, want %q -> %q", i, headers[i].From, headers[i].To, a.Verb+" "+a.Uri, caller)
		}
		if msg := checkForward(r, caller, blocks[i], call.VerifBudgetCall()); msg != "" {
			return pbt.Fail("API %d (%s): %s\n%s", i, caller, msg, out)
		}
		if counts[i].Size != len(blocks[i])+1 {
			return pbt.Fail("API %d (%s): Size %d but its chain has %d edges", i, caller, counts[i].Size, len(blocks[i]))
		}
		if counts[i].Caller != caller || counts[i].HTTPMethod != a.Verb || counts[i].URI != a.Uri {
			return pbt.Fail("API %d: size entry names %v", i, counts[i])
		}
		sub := classify(r, caller, false, false, "")
		if sub.NonTrivial {
			v.NonTrivial = true
		}
		v.Classes = append(v.Classes, sub.Classes...)
	}
	if len(c.Apis) >= 2 {
		v.Classes = append(v.Classes, "apis>=2")
	}
	if len(c.DI) > 0 {
		v.Classes = append(v.Classes, "di_map")
	}
	return v
}

func init() {
	pbt.SetProperty("C03")
	pbt.Describe("rapid-generated code models (1-5 classes over 7 package names, 0-4 methods each, 0-4 calls per method drawn from: declared methods incl. self, undeclared methods, external classes, empty receiver, constructor form; one third of the models acyclic by construction so that call trees can fit the budget; some names contain a double quote), a root (declared caller / declared leaf / absent), lookup on/off; for the api check additionally a DI map of 0-2 class replacements and 0-5 REST APIs. Oracle: reference call relation computed from the abstract model (DI applied), reachability, depth-first tree size. Non-trivial = a cycle or a node of out-degree >= 2 is reachable from the root; distinct = hash of (root or api list, sorted call relation, DI map).",
		"names contain no backslash and no dot inside a simple name; URIs contain no double quote",
		"the expansion budget is read from the code through the verif hook (VerifBudget) so that the check follows a deliberate change of the constant",
		"in lookup mode only soundness of every edge (forward or reverse) and presence of the direct callees are asserted; the reverse part is C04's subject")
	pbt.Register("call", 6000, 60000, genCall, checkCall)
	pbt.Register("api", 4000, 40000, genApi, checkApi)
}

func TestProp(t *testing.T)   { pbt.Main(t) }
func TestReplay(t *testing.T) { pbt.Replay(t) }
