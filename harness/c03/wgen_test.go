// Widened model generator for C03 (a copy of mgen.Gen with more input shapes; the data type
// stays mgen.Model so that old replay files keep loading). Every knob is drawn so that 0 is the
// plain variant of mgen.Gen.
//
// Shapes added over mgen.Gen:
//   - class simple names shared between packages, preferably packages of which one is a
//     (dotted or plain) suffix of the other: b.C0 / a.b.C0 / ab.C0
//   - the default package (Package == "")
//   - method names of which one is a prefix / suffix of another (m0, m00, xm0), names with '$'
//   - callees: a method declared only in the same-named class of another package, an unresolved
//     receiver without package (".list.add"), call Type values the Java front end writes
//   - class-level calls (field initialisers): recorded in the class, made by no method
//   - class Types other than "Class" (Interface, CreatorClass, InnerStructures); methods named
//     like accessors or main (getM, setM, get, isM, main)
//   - up to 8 classes
//   - shape 3: a call tree of exactly K expandable methods (K = 5..9, the budget is 7)
//   - overloads (two functions of one name in a class) when asked for (C04 only)
//
// Shapes added by the audit of input dimensions (each behind its own draw, 0 = absent):
//   - no class at all
//   - callees whose receiver is an expression text as the Java front end records it for a call on a
//     string literal ("a -> b".length()): blanks, the edge operator, ';', braces, DOT keywords inside
//     a quoted name; call arguments with such texts
//   - non-ASCII names, names differing only in case, '_' names, names equal to DOT keywords, long
//     names (300 and 5000 bytes), one callee of 70000 bytes (a deps.json line above 64 KiB)
//   - a class whose name is a prefix of another class's name in the same package (C0 / C00 / C0$1)
//   - extends / implements between model classes (data the call relation does not depend on)
//   - an empty receiver with a package (skipped like the plain empty receiver)
//   - one method with 10-65 calls; shape 3 as a chain (depth = number of expandable methods) and
//     with 12-24 expandable methods
package c03

import (
	"fmt"
	"strings"

	"github.com/modernizing/coca/pkg/domain/core_domain"
	"pgregory.net/rapid"

	"verif/internal/mgen"
	"verif/internal/pbt"
)

type wOpts struct {
	Quotes    bool
	Overloads bool
}

var wPkgs = []string{"a", "b", "a.b", "ab", "a.c", "bc", "c"}
var wExtPkgs = []string{"java.util", "org.ext", "x"}

// pairs of packages where the first is a string suffix of the second
var wSuffixPkgs = map[string][]string{"b": {"a.b", "ab"}, "c": {"a.c", "bc"}, "a.b": {"b"}, "ab": {"b"}, "a.c": {"c"}, "bc": {"c"}}

var wAltMethodNames = []string{"m0", "m00", "xm0", "m1", "m01", "run", "getM", "setM", "get", "isM", "main"}
var wClassTypes = []string{"", "Interface", "CreatorClass", "InnerStructures"}
var wCallTypes = []string{"", "lambda", "CreatorClass", "field"}

// receiver texts of calls on string literals; the plainest first (no dot, no backslash inside)
// (the first wPlainLiterals hold no " -> ")
var wLiteralReceivers = []string{`"a b"`, `"x; y"`, `"}"`, `"digraph G {"`, `"->"`, `"a -> b"`, `" -> "`, `("a -> b"+"c -> d")`}

const wPlainLiterals = 5

// generator feature a known (unrepaired) finding can be tied to in known_findings.json
const arrowFeature = "edge-operator-in-name"

var wNonASCIIMethods = []string{"m\u00e90", "\u65b9\u6cd5", "\u00f1", "\u03a91", "m0\u0301"}
var wOddMethods = []string{"M0", "M1", "m_0", "_", "node", "edge", "graph", "digraph", "strict", "subgraph", "G", "M00"}

// wLiteralCall is a call on a string literal in a method of package pkg: the front end keeps the
// expression text as receiver name and the caller's package.
func wLiteralCall(t *rapid.T, pkg string) mgen.Call {
	pool := wLiteralReceivers
	if pbt.Excluded(arrowFeature) {
		pool = wLiteralReceivers[:wPlainLiterals]
	}
	return mgen.Call{Pkg: pkg, Node: rapid.SampledFrom(pool).Draw(t, "literal"), Func: rapid.SampledFrom([]string{"length", "equals", "run"}).Draw(t, "literalFunc")}
}

func wGen(t *rapid.T, o wOpts) mgen.Model {
	if rapid.IntRange(0, 49).Draw(t, "noClasses") == 49 {
		return mgen.Model{}
	}
	literals := rapid.IntRange(0, 5).Draw(t, "literals") == 5
	names2 := rapid.IntRange(0, 9).Draw(t, "names2") // 6: non-ASCII, 7: case variants, '_', DOT keywords, 8: long, 9: very long
	prefixTwin := rapid.IntRange(0, 5).Draw(t, "prefixTwin") == 5
	maxClasses := 5
	if rapid.IntRange(0, 9).Draw(t, "manyClasses") == 9 {
		maxClasses = 8
	}
	nc := rapid.IntRange(1, maxClasses).Draw(t, "nClasses")
	quotes := o.Quotes && rapid.IntRange(0, 5).Draw(t, "quotedModel") == 5
	// 0, 1: any call target; 2: only later methods (acyclic); 3: a tree of exactly K expandable methods
	shape := rapid.IntRange(0, 3).Draw(t, "shape")
	collide := rapid.IntRange(0, 3).Draw(t, "collide") == 3
	defaultPkg := rapid.IntRange(0, 9).Draw(t, "defaultPkg") == 9
	names := rapid.IntRange(0, 5).Draw(t, "names") // 4: alternative method names, 5: '$'
	moreKinds := rapid.IntRange(0, 2).Draw(t, "moreKinds") == 2
	overloads := o.Overloads && rapid.IntRange(0, 2).Draw(t, "overloads") == 2
	minMethods := 0
	if shape == 3 {
		if nc < 3 {
			nc = 3
		}
		minMethods = 2
	}
	pkgPool := wPkgs
	if defaultPkg {
		pkgPool = append(append([]string{}, wPkgs...), "")
	}
	var m mgen.Model
	seen := map[string]bool{}
	for i := 0; i < nc; i++ {
		pkg := rapid.SampledFrom(pkgPool).Draw(t, "pkg")
		name := fmt.Sprintf("C%d", i)
		if quotes && rapid.IntRange(0, 3).Draw(t, "q") == 3 {
			// a call on a string literal is recorded with the literal's text as receiver: quotes, backslashes
			// (`"\\d+".matches(x)`), tabs and letters outside ASCII; never a backslash in front of a quote or
			// at the end (what that means inside a quoted DOT ID is not settled)
			name = name + rapid.SampledFrom([]string{"\"q", "\"q", "\"\\d+\"", "a\\\\b", "\tq", "\"éü\"", "\\w"}).Draw(t, "literalPiece")
		}
		if names == 5 && rapid.IntRange(0, 2).Draw(t, "dollar") == 2 {
			name = name + "$1"
		}
		if collide && len(m.Classes) > 0 && rapid.IntRange(0, 1).Draw(t, "twin") == 1 {
			other := m.Classes[rapid.IntRange(0, len(m.Classes)-1).Draw(t, "twinOf")]
			cand := other.Name
			p := pkg
			if rel := wSuffixPkgs[other.Pkg]; len(rel) > 0 && rapid.Bool().Draw(t, "suffixPkg") {
				p = rapid.SampledFrom(rel).Draw(t, "relPkg")
			}
			if !seen[p+"."+cand] {
				pkg, name = p, cand
			}
		}
		if names2 == 6 && rapid.IntRange(0, 2).Draw(t, "nonASCIIClass") == 2 {
			name = name + "\u00e9"
		}
		if names2 == 8 && rapid.IntRange(0, 2).Draw(t, "longClass") == 2 {
			name = name + strings.Repeat("L", 300)
		}
		if names2 == 7 && len(m.Classes) > 0 && rapid.IntRange(0, 2).Draw(t, "caseTwin") == 2 {
			// the name of an earlier class in lower case, in its package
			other := m.Classes[rapid.IntRange(0, len(m.Classes)-1).Draw(t, "caseTwinOf")]
			if cand := strings.ToLower(other.Name); !seen[other.Pkg+"."+cand] {
				pkg, name = other.Pkg, cand
			}
		}
		if prefixTwin && len(m.Classes) > 0 && rapid.Bool().Draw(t, "prefixTwinHere") {
			// an earlier class's name with something appended, in its package
			other := m.Classes[rapid.IntRange(0, len(m.Classes)-1).Draw(t, "prefixTwinOf")]
			cand := other.Name + rapid.SampledFrom([]string{"0", "x", "$1", "_"}).Draw(t, "prefixTwinTail")
			if !seen[other.Pkg+"."+cand] {
				pkg, name = other.Pkg, cand
			}
		}
		if seen[pkg+"."+name] {
			continue
		}
		seen[pkg+"."+name] = true
		c := mgen.Class{Pkg: pkg, Name: name}
		if moreKinds {
			// what the front end writes for interfaces (default methods have calls), anonymous and inner classes
			c.Type = rapid.SampledFrom(wClassTypes).Draw(t, "classType")
			if len(m.Classes) > 0 && rapid.IntRange(0, 2).Draw(t, "supertype") == 2 {
				// data the call relation does not depend on
				super := m.Classes[rapid.IntRange(0, len(m.Classes)-1).Draw(t, "supertypeOf")].Full()
				if rapid.Bool().Draw(t, "implements") {
					c.Implements = []string{super}
				} else {
					c.Extend = super
				}
			}
		}
		nm := rapid.IntRange(minMethods, 4).Draw(t, "nMethods")
		used := map[string]bool{}
		for j := 0; j < nm; j++ {
			mn := fmt.Sprintf("m%d", j)
			if names == 4 && rapid.Bool().Draw(t, "altName") {
				mn = rapid.SampledFrom(wAltMethodNames).Draw(t, "methodName")
			}
			if names == 5 && rapid.IntRange(0, 3).Draw(t, "dollar") == 3 {
				mn = mn + "$"
			}
			if quotes && rapid.IntRange(0, 5).Draw(t, "q") == 5 {
				mn = mn + rapid.SampledFrom([]string{"\"x", "\"x", "\\n1", "\tx", "\\d+x"}).Draw(t, "literalPieceM")
			}
			switch {
			case names2 == 6 && rapid.Bool().Draw(t, "nonASCIIName"):
				mn = rapid.SampledFrom(wNonASCIIMethods).Draw(t, "nonASCIIMethod")
			case names2 == 7 && rapid.Bool().Draw(t, "oddName"):
				mn = rapid.SampledFrom(wOddMethods).Draw(t, "oddMethod")
			case names2 == 8 && rapid.IntRange(0, 2).Draw(t, "longName") == 2:
				mn = mn + strings.Repeat("l", 300)
			case names2 == 9 && rapid.IntRange(0, 3).Draw(t, "veryLongName") == 3:
				mn = mn + strings.Repeat("v", 5000)
			}
			if used[mn] && !overloads {
				continue
			}
			used[mn] = true
			c.Methods = append(c.Methods, mgen.Method{Name: mn})
		}
		if overloads && len(c.Methods) > 0 && rapid.Bool().Draw(t, "overload") {
			// a second function of the same name, not necessarily next to the first
			c.Methods = append(c.Methods, mgen.Method{Name: c.Methods[rapid.IntRange(0, len(c.Methods)-1).Draw(t, "overloadOf")].Name})
		}
		if rapid.IntRange(0, 3).Draw(t, "hasCtor") == 3 {
			c.Methods = append(c.Methods, mgen.Method{Name: name, Ctor: true})
		}
		m.Classes = append(m.Classes, c)
	}
	type ref struct{ ci, mi int }
	var refs []ref
	for ci, c := range m.Classes {
		for mi := range c.Methods {
			refs = append(refs, ref{ci, mi})
		}
	}
	callTo := func(r ref) mgen.Call {
		tc := m.Classes[r.ci]
		return mgen.Call{Pkg: tc.Pkg, Node: tc.Name, Func: tc.Methods[r.mi].Name}
	}
	anyMethodName := func() string {
		if len(refs) == 0 {
			return "undeclared"
		}
		r := rapid.SampledFrom(refs).Draw(t, "nameOf")
		return m.Classes[r.ci].Methods[r.mi].Name
	}

	// extras adds, each behind its own draw, one method with very many calls and one very long callee
	// name. expandable: the number of leading refs that form the tree of shape 3 (0 otherwise); the
	// added calls never make a method outside that tree expandable and never close a cycle in the
	// acyclic shapes.
	extras := func(expandable int) {
		if len(refs) == 0 {
			return
		}
		if rapid.IntRange(0, 11).Draw(t, "wide") == 11 {
			at := 0
			if expandable > 0 {
				at = rapid.IntRange(0, expandable-1).Draw(t, "wideAt")
			} else {
				at = rapid.IntRange(0, len(refs)-1).Draw(t, "wideAt")
			}
			mm := &m.Classes[refs[at].ci].Methods[refs[at].mi]
			n := rapid.SampledFrom([]int{10, 17, 33, 40, 65}).Draw(t, "wideCalls")
			distinct := rapid.Bool().Draw(t, "wideDistinct")
			for i := 0; i < n; i++ {
				call := mgen.Call{Pkg: "x", Node: "Ext", Func: "run"}
				if distinct {
					call.Func = fmt.Sprintf("r%d", i)
				}
				if expandable == 0 && rapid.IntRange(0, 3).Draw(t, "wideDeclared") == 3 {
					lo := 0
					if shape == 2 {
						lo = at + 1
					}
					if lo < len(refs) {
						call = callTo(refs[rapid.IntRange(lo, len(refs)-1).Draw(t, "wideTarget")])
					}
				}
				mm.Calls = append(mm.Calls, call)
			}
		}
		if rapid.IntRange(0, 79).Draw(t, "hugeName") == 79 {
			// one external callee whose name alone is longer than 64 KiB
			hi := len(refs) - 1
			if expandable > 0 {
				hi = expandable - 1
			}
			r := refs[rapid.IntRange(0, hi).Draw(t, "hugeAt")]
			mm := &m.Classes[r.ci].Methods[r.mi]
			mm.Calls = append(mm.Calls, mgen.Call{Pkg: "x", Node: "Ext" + strings.Repeat("H", 70000), Func: "run"})
		}
	}

	if shape == 3 && len(refs) >= 5 {
		// a tree over the first K methods; every node also calls a leaf so that it is expandable
		k := rapid.SampledFrom([]int{7, 8, 5, 6, 9, 7, 8}).Draw(t, "treeNodes") // the budget is 7
		if rapid.IntRange(0, 7).Draw(t, "bigTree") == 7 {
			k = rapid.SampledFrom([]int{12, 16, 24}).Draw(t, "bigTreeNodes")
		}
		if k > len(refs) {
			k = len(refs)
		}
		// a chain: as deep as it has expandable methods
		chain := rapid.IntRange(0, 4).Draw(t, "chain") == 4
		for i := 0; i < k; i++ {
			if i > 0 {
				p := refs[i-1]
				if !chain {
					p = refs[rapid.IntRange(0, i-1).Draw(t, "parent")]
				}
				pm := &m.Classes[p.ci].Methods[p.mi]
				pm.Calls = append(pm.Calls, callTo(refs[i]))
			}
		}
		if rapid.IntRange(0, 3).Draw(t, "again") == 3 {
			// one node of the tree is called a second time (its subtree is unfolded twice)
			p, c := refs[rapid.IntRange(0, k-1).Draw(t, "againFrom")], refs[rapid.IntRange(1, k-1).Draw(t, "againTo")]
			pm := &m.Classes[p.ci].Methods[p.mi]
			if p.ci*100+p.mi < c.ci*100+c.mi { // keeps the tree acyclic
				pm.Calls = append(pm.Calls, callTo(c))
			}
		}
		for i := 0; i < k; i++ {
			r := refs[i]
			mm := &m.Classes[r.ci].Methods[r.mi]
			leaf := mgen.Call{Pkg: "x", Node: "Ext", Func: "run"}
			if k < len(refs) && rapid.Bool().Draw(t, "declaredLeaf") {
				leaf = callTo(refs[rapid.IntRange(k, len(refs)-1).Draw(t, "leaf")])
			}
			if rapid.Bool().Draw(t, "leafFirst") {
				mm.Calls = append([]mgen.Call{leaf}, mm.Calls...)
			} else {
				mm.Calls = append(mm.Calls, leaf)
			}
			if literals && rapid.IntRange(0, 2).Draw(t, "literalCall") == 2 {
				mm.Calls = append(mm.Calls, wLiteralCall(t, m.Classes[r.ci].Pkg))
			}
		}
		extras(k)
		return m
	}

	density := rapid.IntRange(1, 4).Draw(t, "density")
	for ci := range m.Classes {
		if moreKinds && len(refs) > 0 && rapid.IntRange(0, 3).Draw(t, "fieldCalls") == 3 {
			// calls in field initialisers: recorded at class level, made by no method
			n := rapid.IntRange(1, 2).Draw(t, "nFieldCalls")
			for k := 0; k < n; k++ {
				fc := callTo(rapid.SampledFrom(refs).Draw(t, "fieldCallee"))
				m.Classes[ci].FieldCalls = append(m.Classes[ci].FieldCalls, fc)
			}
		}
		for mi := range m.Classes[ci].Methods {
			n := rapid.IntRange(0, density).Draw(t, "nCalls")
			if n == 0 && rapid.Bool().Draw(t, "atLeastOne") {
				n = 1
			}
			for k := 0; k < n; k++ {
				kind := rapid.IntRange(0, 19).Draw(t, "kind")
				var call mgen.Call
				switch {
				case literals && rapid.IntRange(0, 2).Draw(t, "literalCall") == 2: // a call on a string literal
					call = wLiteralCall(t, m.Classes[ci].Pkg)
				case kind < 13 && len(refs) > 0: // declared method (possibly itself)
					r := rapid.SampledFrom(refs).Draw(t, "target")
					if shape == 2 {
						self := 0
						for i, x := range refs {
							if x.ci == ci && x.mi == mi {
								self = i
							}
						}
						if self == len(refs)-1 {
							continue
						}
						r = refs[rapid.IntRange(self+1, len(refs)-1).Draw(t, "later")]
					}
					call = callTo(r)
				case kind < 15: // undeclared method of a declared class
					tc := rapid.SampledFrom(m.Classes).Draw(t, "tclass")
					call = mgen.Call{Pkg: tc.Pkg, Node: tc.Name, Func: "undeclared"}
					if (moreKinds || collide) && shape != 2 && rapid.Bool().Draw(t, "borrowedName") {
						// a name declared elsewhere (e.g. in the same-named class of another package)
						call.Func = anyMethodName()
					}
				case kind < 17: // external
					call = mgen.Call{Pkg: rapid.SampledFrom(wExtPkgs).Draw(t, "xpkg"), Node: "Ext", Func: "run"}
					if moreKinds && rapid.IntRange(0, 3).Draw(t, "qualifiedReceiver") == 3 {
						// eighth seed batch: a receiver written with its package inside that package (`com.foo.Bar.baz()` in
						// com.foo) is recorded as Package com.foo, NodeName com.foo.Bar: the callee is com.foo.com.foo.Bar.baz,
						// which is no declared method even where com.foo.Bar.baz is one
						tc := rapid.SampledFrom(m.Classes).Draw(t, "qualifiedOf")
						if tc.Pkg != "" && len(tc.Methods) > 0 {
							call = mgen.Call{Pkg: tc.Pkg, Node: tc.Pkg + "." + tc.Name, Func: tc.Methods[rapid.IntRange(0, len(tc.Methods)-1).Draw(t, "qualifiedMethod")].Name}
						}
					}
					if moreKinds && rapid.IntRange(0, 2).Draw(t, "noPkg") == 2 {
						call = mgen.Call{Pkg: "", Node: "list", Func: "add"} // receiver the front end could not resolve
					}
				case kind < 18: // empty receiver
					call = mgen.Call{Pkg: "", Node: "", Func: "orphan"}
					if moreKinds && rapid.Bool().Draw(t, "orphanWithPkg") {
						call.Pkg = m.Classes[ci].Pkg
					}
				default: // constructor form
					tc := rapid.SampledFrom(m.Classes).Draw(t, "tclass")
					call = mgen.Call{Pkg: tc.Pkg, Node: tc.Name, Func: ""}
				}
				if moreKinds {
					call.Type = rapid.SampledFrom(wCallTypes).Draw(t, "callType")
				}
				m.Classes[ci].Methods[mi].Calls = append(m.Classes[ci].Methods[mi].Calls, call)
			}
		}
	}
	extras(0)
	return m
}

// wMutate returns a changed copy of m with the same classes and method names: the calls of one
// to three methods are replaced (what a cache keyed by names or sizes would not notice).
func wMutate(t *rapid.T, m mgen.Model) mgen.Model {
	var out mgen.Model
	for _, c := range m.Classes {
		cc := c
		cc.Methods = nil
		for _, mm := range c.Methods {
			mc := mm
			mc.Calls = append([]mgen.Call(nil), mm.Calls...)
			cc.Methods = append(cc.Methods, mc)
		}
		out.Classes = append(out.Classes, cc)
	}
	type ref struct{ ci, mi int }
	var refs []ref
	for ci, c := range out.Classes {
		for mi := range c.Methods {
			refs = append(refs, ref{ci, mi})
		}
	}
	if len(refs) == 0 {
		return out
	}
	n := rapid.IntRange(1, 3).Draw(t, "nMutations")
	for i := 0; i < n; i++ {
		r := rapid.SampledFrom(refs).Draw(t, "mutated")
		mm := &out.Classes[r.ci].Methods[r.mi]
		switch rapid.IntRange(0, 2).Draw(t, "mutation") {
		case 0: // drop the calls
			mm.Calls = nil
		case 1: // call another declared method in addition
			x := rapid.SampledFrom(refs).Draw(t, "newCallee")
			tc := out.Classes[x.ci]
			mm.Calls = append(mm.Calls, mgen.Call{Pkg: tc.Pkg, Node: tc.Name, Func: tc.Methods[x.mi].Name})
		default: // replace the calls
			x := rapid.SampledFrom(refs).Draw(t, "onlyCallee")
			tc := out.Classes[x.ci]
			mm.Calls = []mgen.Call{{Pkg: tc.Pkg, Node: tc.Name, Func: tc.Methods[x.mi].Name}}
		}
	}
	return out
}

// toCoca converts a model and fills in, as a fixed function of the position in the model, the
// fields a parsed project carries and the call relation does not depend on: positions (every call
// site has its own), modifiers, @Override, return and parameter types, call arguments (some with
// texts that look like edge statements), imports and fields.
func toCoca(m mgen.Model) []core_domain.CodeDataStruct {
	out := m.ToCoca()
	for i := range out {
		line := 3
		if i%2 == 1 {
			out[i].Imports = []core_domain.CodeImport{{Source: "java.util.List"}, {Source: "x.Ext"}}
			out[i].Fields = []core_domain.CodeField{{TypeType: "Ext", TypeValue: "ext", Modifiers: []string{"private"}}}
		}
		for j := range out[i].Functions {
			f := &out[i].Functions[j]
			f.Position = core_domain.CodePosition{StartLine: line, StartLinePosition: 4, StopLine: line + len(f.FunctionCalls) + 1, StopLinePosition: 5}
			switch (i + j) % 4 {
			case 1:
				f.Modifiers = []string{"public", "static"}
			case 2:
				f.Modifiers = []string{"public"}
				f.Override = true
				f.Annotations = []core_domain.CodeAnnotation{{Name: "Override"}}
			case 3:
				f.Modifiers = []string{"private"}
				if !f.IsConstructor {
					f.ReturnType = "String"
				}
				f.Parameters = []core_domain.CodeProperty{{TypeType: "int", TypeValue: "n"}}
			}
			for k := range f.FunctionCalls {
				f.FunctionCalls[k].Position = core_domain.CodePosition{StartLine: line + 1 + k, StartLinePosition: 8 + k, StopLine: line + 1 + k, StopLinePosition: 30}
				switch (i + j + k) % 3 {
				case 1: // argument texts are no part of any name
					f.FunctionCalls[k].Parameters = []core_domain.CodeProperty{{TypeValue: "\"a -> b\""}, {TypeValue: "n"}}
				case 2:
					f.FunctionCalls[k].Parameters = []core_domain.CodeProperty{{TypeValue: "x -> \"y\";"}}
				}
			}
			line += len(f.FunctionCalls) + 3
		}
	}
	return out
}
